package harness

import (
	"context"
	"encoding/binary"
	"encoding/json"
	"fmt"
	"os"
	"regexp"
	"runtime"
	"slices"
	"sort"
	"strings"
	"sync"
	"testing"
	"testing/synctest"
	"time"

	"github.com/cosi-project/runtime/pkg/resource"
	"github.com/cosi-project/runtime/pkg/state"
	"github.com/cosi-project/runtime/pkg/state/impl/inmem"
)

// ---- scenario description (replayable) -------------------------------------------------

type selTerm struct {
	Key  string   `json:"key"`
	Vals []string `json:"vals,omitempty"`
	Op   int      `json:"op"` // 0 exists, 1 equal, 2 in, 3 lt, 4 lte
	Inv  bool     `json:"inv,omitempty"`
}

type wAct struct {
	Op string `json:"op"` // write | start | recv | list
	W  *sOp   `json:"w,omitempty"`

	K         int         `json:"k,omitempty"`
	Mode      string      `json:"mode,omitempty"` // single | kind | agg
	ID        string      `json:"id,omitempty"`
	Sel       [][]selTerm `json:"sel,omitempty"`
	IDs       []string    `json:"ids,omitempty"` // kind / aggregated: ID query ^(id1|id2)$
	Bootstrap bool        `json:"bootstrap,omitempty"`
	BootBm    bool        `json:"bootbm,omitempty"`
	Start     string      `json:"start,omitempty"` // default | tail | real | forged | garbage | foreign
	N         int         `json:"n,omitempty"`     // tail size / index into delivered bookmarks / garbage length
	Pos       int64       `json:"pos,omitempty"`   // forged / foreign position
}

type wScenario struct {
	InitCap int    `json:"initcap"`
	MaxCap  int    `json:"maxcap"`
	Gap     int    `json:"gap"`
	Acts    []wAct `json:"acts"`
	// which state flavour: "inmem" or "grpc" (remote watch through the in-memory client/server)
	Handle string `json:"handle,omitempty"`
}

func termOpts(t selTerm) resource.LabelQueryOption {
	var opts []resource.TermOption
	if t.Inv {
		opts = append(opts, resource.NotMatches)
	}

	switch t.Op {
	case 0:
		return resource.LabelExists(t.Key, opts...)
	case 1:
		return resource.LabelEqual(t.Key, t.Vals[0], opts...)
	case 2:
		return resource.LabelIn(t.Key, t.Vals, opts...)
	case 3:
		return resource.LabelLT(t.Key, t.Vals[0], opts...)
	default:
		return resource.LabelLTE(t.Key, t.Vals[0], opts...)
	}
}

// withIDTerm folds an ID query into the selector the way WatchCheck.sel_matches reads it: a term on the reserved key "".
func withIDTerm(sel [][]selTerm, ids []string) [][]selTerm {
	if len(ids) == 0 {
		return sel
	}

	idt := selTerm{Key: "", Op: 2, Vals: ids}

	if len(sel) == 0 {
		return [][]selTerm{{idt}}
	}

	out := make([][]selTerm, len(sel))
	for i, q := range sel {
		out[i] = append([]selTerm{idt}, q...)
	}

	return out
}

func coqSel(sel [][]selTerm) string {
	qs := make([]string, len(sel))

	for i, q := range sel {
		ts := make([]string, len(q))

		for j, t := range q {
			vs := make([]string, len(t.Vals))
			for k, v := range t.Vals {
				vs[k] = coqAtom(v)
			}

			ts[j] = fmt.Sprintf("(mkTerm %s %s %s %s)", coqAtom(t.Key), coqList(vs), coqN(uint64(t.Op)), coqBool(t.Inv))
		}

		qs[i] = coqList(ts)
	}

	return coqList(qs)
}

// ---- observation rendering ----------------------------------------------------------------

var (
	cookieOnce sync.Once
	cookieVal  []byte
)

// processCookie discovers the per-process bookmark cookie from a real bookmark.
func processCookie() []byte {
	cookieOnce.Do(func() {
		st := inmem.NewState("scratch")
		ctx, cancel := context.WithCancel(context.Background())

		defer cancel()

		ch := make(chan state.Event, 1)
		if err := st.WatchKind(ctx, resource.NewMetadata("scratch", "T", "", resource.VersionUndefined), ch, state.WithBootstrapBookmark(true)); err != nil {
			panic(err)
		}

		ev := <-ch
		cookieVal = append([]byte(nil), ev.Bookmark[:8]...)
	})

	return cookieVal
}

func coqResOrTomb(r resource.Resource, t0 time.Time) string {
	if r == nil {
		return "None"
	}

	if resource.IsTombstone(r) {
		md := r.Metadata()

		return fmt.Sprintf("(Some (tombstone %s %s %s))", coqAtom(md.Namespace()), coqAtom(md.Type()), coqAtom(md.ID()))
	}

	return "(Some " + coqRes(r, t0) + ")"
}

func coqEvent(e state.Event, t0 time.Time) string {
	bm := "None"
	if len(e.Bookmark) == 16 {
		bm = "(Some " + coqZ(int64(binary.BigEndian.Uint64(e.Bookmark[8:]))) + ")"
	}

	if e.Type == state.Errored {
		return "(WE 4%N None None None)"
	}

	return fmt.Sprintf("(WE %s %s %s %s)", coqN(uint64(e.Type)), coqResOrTomb(e.Resource, t0), coqResOrTomb(e.Old, t0), bm)
}

// ---- running a scenario ---------------------------------------------------------------------

type liveWatcher struct {
	mode   string
	single chan state.Event
	agg    chan []state.Event
	cancel context.CancelFunc
	sel    [][]selTerm
	ids    []string
	id     string
	// Go-side monitor: replica built from delivered events
	replica   map[string]resource.Resource
	errored   bool
	bootstrap bool
	bootDone  bool
	lastBm    int64
	haveBm    bool
	caughtUp  bool
	startKind string
	delivered []state.Event
}

type scenarioResult struct {
	coq      string
	problems []string
	flags    map[string]bool
}

func selMatchesGo(sel [][]selTerm, r resource.Resource) bool {
	var qs resource.LabelQueries

	for _, q := range sel {
		var lq resource.LabelQuery
		for _, t := range q {
			termOpts(t)(&lq)
		}

		qs = append(qs, lq)
	}

	return qs.Matches(*r.Metadata().Labels())
}

func runWatchScenario(t *testing.T, sc wScenario) (res scenarioResult) {
	res.flags = map[string]bool{}

	synctest.Test(t, func(t *testing.T) {
		ctx, cancel := context.WithCancel(context.Background())
		defer cancel()

		cookie := processCookie()

		backing := inmem.NewStateWithOptions(
			inmem.WithHistoryInitialCapacity(sc.InitCap), inmem.WithHistoryMaxCapacity(sc.MaxCap), inmem.WithHistoryGap(sc.Gap),
		)("n1")

		var st state.CoreState = backing

		if sc.Handle == "grpc" {
			ad, _ := newRemote(backing)
			st = ad
		}

		t0 := time.Now()
		lastVer := map[string]uint64{}

		var (
			mu       sync.Mutex
			items    []string
			watchers = map[int]*liveWatcher{}
			allBms   [][]byte
			writes   int
		)

		kind := resource.NewMetadata("n1", "T", "", resource.VersionUndefined)

		for _, a := range sc.Acts {
			switch a.Op {
			case "write":
				time.Sleep(time.Millisecond)

				now := int64(time.Since(t0))
				cop, cobs, _ := execOp(ctx, st, *a.W, t0, lastVer, &mu)
				ok := !strings.HasPrefix(cobs, "(ObErr")

				if ok && a.W.Op != "get" && a.W.Op != "list" {
					writes++
				}

				synctest.Wait()
				items = append(items, fmt.Sprintf("(SWrite %s %s %s)", coqZ(now), cop, coqBool(ok)))
			case "list":
				l, err := coqListOf(ctx, st, "n1", "T", t0)
				if err != nil {
					t.Fatal(err)
				}

				items = append(items, "(SList "+l+")")
			case "start":
				w := &liveWatcher{mode: a.Mode, sel: a.Sel, ids: a.IDs, id: a.ID, replica: map[string]resource.Resource{}, bootstrap: a.Bootstrap, startKind: a.Start}
				wctx, wcancel := context.WithCancel(ctx)
				w.cancel = wcancel

				var bm []byte

				coqStart := "WDefault"

				switch a.Start {
				case "tail":
					coqStart = fmt.Sprintf("(WTail %s)", coqZ(int64(a.N)))
				case "real":
					if len(allBms) == 0 {
						wcancel()

						continue
					}

					bm = allBms[a.N%len(allBms)]
				case "forged":
					bm = binary.BigEndian.AppendUint64(append([]byte(nil), cookie...), uint64(a.Pos))
				case "foreign":
					other := append([]byte(nil), cookie...)
					other[a.N%8] ^= 0x5a
					bm = binary.BigEndian.AppendUint64(other, uint64(a.Pos))
				case "overlong":
					// a genuine bookmark with something appended (a second bookmark, a few bytes): malformed, to be refused
					if len(allBms) == 0 {
						wcancel()

						continue
					}

					bm = append([]byte(nil), allBms[a.N%len(allBms)]...)
					if a.Pos%2 == 0 {
						bm = append(bm, allBms[(a.N/7)%len(allBms)]...)
					} else {
						bm = append(bm, make([]byte, 1+a.Pos%8)...)
					}
				case "garbage":
					bm = make([]byte, a.N%24)
					for i := range bm {
						bm[i] = byte(a.Pos>>uint(i%8)) ^ byte(i*37)
					}

					if len(bm) == 0 {
						bm = []byte{}
					}
				}

				if a.Start != "default" && a.Start != "tail" && a.Start != "" {
					coqStart = "(WBm " + coqBytes(bm) + ")"
					res.flags["bookmark_"+a.Start] = true
				}

				var err error

				coqMode := "MKind"

				switch a.Mode {
				case "single":
					coqMode = "(MSingle " + coqAtom(a.ID) + ")"
					w.single = make(chan state.Event)

					var opts []state.WatchOption
					if a.Start == "tail" {
						opts = append(opts, state.WithTailEvents(a.N))
					} else if bm != nil {
						opts = append(opts, state.WithStartFromBookmark(bm))
					}

					err = st.Watch(wctx, resource.NewMetadata("n1", "T", a.ID, resource.VersionUndefined), w.single, opts...)
				default:
					var opts []state.WatchKindOption

					if a.Bootstrap {
						opts = append(opts, state.WithBootstrapContents(true))
					}

					if a.BootBm {
						opts = append(opts, state.WithBootstrapBookmark(true))
					}

					if a.Start == "tail" {
						opts = append(opts, state.WithKindTailEvents(a.N))
					} else if bm != nil {
						opts = append(opts, state.WithKindStartFromBookmark(bm))
					}

					for _, q := range a.Sel {
						var lo []resource.LabelQueryOption
						for _, tm := range q {
							lo = append(lo, termOpts(tm))
						}

						opts = append(opts, state.WatchWithLabelQuery(lo...))
					}

					if len(a.IDs) > 0 {
						opts = append(opts, state.WatchWithIDQuery(resource.IDRegexpMatch(regexp.MustCompile("^("+strings.Join(a.IDs, "|")+")$"))))
					}

					if a.Mode == "agg" {
						coqMode = "MAgg"
						w.agg = make(chan []state.Event)
						err = st.WatchKindAggregated(wctx, kind, w.agg, opts...)
					} else {
						w.single = make(chan state.Event)
						err = st.WatchKind(wctx, kind, w.single, opts...)
					}
				}

				accepted := err == nil
				if !accepted {
					wcancel()

					if bm != nil && !state.IsInvalidWatchBookmarkError(err) {
						res.problems = append(res.problems, fmt.Sprintf("rejected bookmark is not classified as invalid-bookmark: %v", err))
					}

					res.flags["start_rejected"] = true
				} else {
					watchers[a.K] = w
				}

				synctest.Wait()
				items = append(items, fmt.Sprintf("(SStart %s %s %s %s %s %s %s)", coqN(uint64(a.K)), coqMode, coqSel(withIDTerm(a.Sel, a.IDs)), coqBool(a.Bootstrap), coqBool(a.BootBm), coqStart, coqBool(accepted)))
			case "recv":
				w, ok := watchers[a.K]
				if !ok {
					continue
				}

				synctest.Wait()

				var (
					got []state.Event
					any bool
				)

				if w.single != nil {
					select {
					case e := <-w.single:
						got, any = []state.Event{e}, true
					default:
					}
				} else {
					select {
					case es := <-w.agg:
						got, any = es, true
					default:
					}
				}

				synctest.Wait()

				if !any {
					items = append(items, fmt.Sprintf("(SRecv %s None)", coqN(uint64(a.K))))

					continue
				}

				evs := make([]string, len(got))
				for i, e := range got {
					evs[i] = coqEvent(e, t0)

					if len(e.Bookmark) == 16 {
						allBms = append(allBms, e.Bookmark)
					}

					monitorEvent(w, e, &res)
				}

				items = append(items, fmt.Sprintf("(SRecv %s (Some %s))", coqN(uint64(a.K)), coqList(evs)))
			}
		}

		// drain every watcher, then the replay-equals-state monitor (C02/C14)
		wkeys := make([]int, 0, len(watchers))
		for k := range watchers {
			wkeys = append(wkeys, k)
		}

		sort.Ints(wkeys)

		for _, k := range wkeys {
			w := watchers[k]

			for range 4 * (writes + 8) {
				synctest.Wait()

				var (
					got []state.Event
					any bool
				)

				if w.single != nil {
					select {
					case e := <-w.single:
						got, any = []state.Event{e}, true
					default:
					}
				} else {
					select {
					case es := <-w.agg:
						got, any = es, true
					default:
					}
				}

				if !any {
					break
				}

				evs := make([]string, len(got))
				for i, e := range got {
					evs[i] = coqEvent(e, t0)
					monitorEvent(w, e, &res)
				}

				items = append(items, fmt.Sprintf("(SRecv %s (Some %s))", coqN(uint64(k)), coqList(evs)))
			}

			replayMonitor(ctx, backing, w, &res)
		}

		l, err := coqListOf(ctx, st, "n1", "T", t0)
		if err != nil {
			t.Fatal(err)
		}

		items = append(items, "(SList "+l+")")

		res.coq = fmt.Sprintf("(%s, %s, %s, %s, %s)", coqZ(int64(sc.InitCap)), coqZ(int64(sc.MaxCap)), coqZ(int64(sc.Gap)), coqBytes(cookie), coqList(items))

		cancel()
		synctest.Wait()
	})

	return res
}

// monitorEvent: Go-side property monitors on the delivered stream (independent of the Coq model).
func monitorEvent(w *liveWatcher, e state.Event, res *scenarioResult) {
	if w.errored {
		res.problems = append(res.problems, "event delivered after terminal Errored")
	}

	w.delivered = append(w.delivered, e)

	switch e.Type {
	case state.Errored:
		w.errored = true
		res.flags["errored"] = true

		return
	case state.Bootstrapped:
		w.bootDone = true

		return
	case state.Noop:
		return
	}

	md := e.Resource.Metadata()
	if md.Namespace() != "n1" || md.Type() != "T" {
		res.problems = append(res.problems, "leak: event for another kind")
	}

	if w.mode == "single" && md.ID() != w.id {
		res.problems = append(res.problems, fmt.Sprintf("leak: single watch on %q got event for %q", w.id, md.ID()))
	}

	// C12: every event of the live part of a kind watch carries a bookmark to resume from (the snapshot part of a
	// bootstrapped watch does not)
	if w.mode != "single" && (!w.bootstrap || w.bootDone) && len(e.Bookmark) == 0 {
		res.problems = append(res.problems, fmt.Sprintf("no-bookmark: live %v event for %q delivered without a bookmark: a consumer cannot resume after it", e.Type, md.ID()))
	}

	if len(e.Bookmark) == 16 {
		p := int64(binary.BigEndian.Uint64(e.Bookmark[8:]))
		if w.haveBm && p <= w.lastBm {
			res.problems = append(res.problems, fmt.Sprintf("order: bookmark position %d after %d (duplicate or reordering)", p, w.lastBm))
		}

		w.lastBm, w.haveBm = p, true
	}

	switch e.Type { //nolint:exhaustive
	case state.Created:
		w.replica[md.ID()] = e.Resource
	case state.Updated:
		if prev, ok := w.replica[md.ID()]; ok && e.Old != nil {
			if !prev.Metadata().Version().Equal(e.Old.Metadata().Version()) {
				res.problems = append(res.problems, fmt.Sprintf("chain: Updated.Old of %q has version %s, previously delivered %s", md.ID(), e.Old.Metadata().Version(), prev.Metadata().Version()))
			}

			if md.Version().Value() != e.Old.Metadata().Version().Value()+1 {
				res.problems = append(res.problems, fmt.Sprintf("chain: Updated %q version %s is not old+1 (%s)", md.ID(), md.Version(), e.Old.Metadata().Version()))
			}

			res.flags["updated_chain"] = true
		}

		w.replica[md.ID()] = e.Resource
	case state.Destroyed:
		delete(w.replica, md.ID())
	}
}

// replayMonitor: for a watcher that saw the whole stream from a snapshot (bootstrap kind watch, or a default
// single watch), the replica must equal the (filtered) current contents once it has caught up.
func replayMonitor(ctx context.Context, st state.CoreState, w *liveWatcher, res *scenarioResult) {
	if w.errored {
		return
	}

	want := map[string]string{}

	l, err := st.List(ctx, resource.NewMetadata("n1", "T", "", resource.VersionUndefined))
	if err != nil {
		return
	}

	for _, r := range l.Items {
		if w.mode == "single" {
			if r.Metadata().ID() == w.id {
				want[r.Metadata().ID()] = r.Metadata().Version().String()
			}

			continue
		}

		if (len(w.ids) == 0 || slices.Contains(w.ids, r.Metadata().ID())) && (len(w.sel) == 0 || selMatchesGo(w.sel, r)) {
			want[r.Metadata().ID()] = r.Metadata().Version().String()
		}
	}

	full := (w.mode == "single" && (w.startKind == "default" || w.startKind == "")) || (w.mode != "single" && w.bootstrap)
	if !full {
		return
	}

	got := map[string]string{}
	for id, r := range w.replica {
		got[id] = r.Metadata().Version().String()
	}

	if fmt.Sprint(sortedMap(got)) != fmt.Sprint(sortedMap(want)) {
		res.problems = append(res.problems, fmt.Sprintf("replay: events replayed over the snapshot give %v, store has %v", sortedMap(got), sortedMap(want)))
	}

	res.flags["replay_checked"] = true
}

func sortedMap(m map[string]string) []string {
	out := make([]string, 0, len(m))
	for k, v := range m {
		out = append(out, k+"@"+v)
	}

	sort.Strings(out)

	return out
}

// ---- generation ---------------------------------------------------------------------------------

var c02Configs = [][3]int{{1, 1, 0}, {2, 8, 1}, {3, 3, 0}, {3, 3, 2}, {4, 4, 1}, {2, 4, 0}, {2, 3, 1}, {5, 10, 2}, {8, 8, 3}, {100, 100, 10}}

func genWrite(r *rng, present map[string]bool) *sOp {
	id := pick(r, c01IDs)
	o := &sOp{NS: "n1", Typ: "T", ID: id, Exp: "any"}

	switch {
	case !present[id]:
		o.Op = "create"
		o.VerRel = "undef"
		present[id] = true
	case r.chance(1, 4):
		o.Op = "destroy"
		delete(present, id)
	default:
		o.Op = "update"
		o.VerRel = "cur"

		if r.chance(1, 8) {
			o.VerRel = "stale" // failing write: must publish nothing
		}
	}

	o.Payload = fmt.Sprintf("p%d", r.intn(9))

	if o.Op == "update" && r.chance(1, 3) {
		o.ViaGet = true
	}

	if r.chance(1, 2) {
		o.Labels = map[string]string{"l0": "v" + fmt.Sprint(r.intn(3))}
		if r.chance(1, 3) {
			o.Labels["l1"] = "v" + fmt.Sprint(r.intn(2))
		}
	}

	return o
}

func genSel(r *rng) [][]selTerm {
	if r.chance(1, 2) {
		return nil
	}

	term := func() selTerm {
		switch r.intn(5) {
		case 0:
			return selTerm{Key: "l0", Op: 0, Inv: r.chance(1, 3)}
		case 1:
			return selTerm{Key: "l0", Op: 1, Vals: []string{"v" + fmt.Sprint(r.intn(3))}, Inv: r.chance(1, 3)}
		case 2:
			return selTerm{Key: "l0", Op: 2, Vals: []string{"v0", "v2"}, Inv: r.chance(1, 3)}
		case 3:
			return selTerm{Key: "l0", Op: 3, Vals: []string{"v1"}, Inv: r.chance(1, 3)}
		default:
			return selTerm{Key: "l1", Op: 4, Vals: []string{"v0"}, Inv: r.chance(1, 3)}
		}
	}

	sel := [][]selTerm{{term()}}
	if r.chance(1, 3) {
		sel[0] = append(sel[0], term())
	}

	if r.chance(1, 4) {
		sel = append(sel, []selTerm{term()})
	}

	// an alternative without terms (WithLabelQuery() with no options): it matches everything, so the selector does
	if r.chance(1, 8) {
		if r.chance(1, 2) {
			sel = append(sel, []selTerm{})
		} else {
			sel = append([][]selTerm{{}}, sel...)
		}
	}

	return sel
}

func genWatchScenario(r *rng, n int, handle string) wScenario {
	cfg := pick(r, c02Configs)
	sc := wScenario{InitCap: cfg[0], MaxCap: cfg[1], Gap: cfg[2], Handle: handle}
	present := map[string]bool{}
	nextK := 0

	for len(sc.Acts) < n {
		switch x := r.intn(100); {
		case x < 45:
			sc.Acts = append(sc.Acts, wAct{Op: "write", W: genWrite(r, present)})
		case x < 60 && nextK < 4:
			a := wAct{Op: "start", K: nextK}
			nextK++

			switch r.intn(3) {
			case 0:
				a.Mode = "single"
				a.ID = pick(r, c01IDs)
			case 1:
				a.Mode = "kind"
			default:
				a.Mode = "agg"
			}

			if a.Mode != "single" {
				a.Sel = genSel(r)

				if r.chance(1, 4) {
					a.IDs = pick(r, [][]string{{"a"}, {"a", "b"}, {"b", "c"}, {"c"}})
				}
			}

			switch y := r.intn(100); {
			case y < 35:
				a.Start = "default"

				if a.Mode != "single" {
					a.Bootstrap = r.chance(1, 2)
					a.BootBm = r.chance(1, 3)
				}
			case y < 55:
				a.Start = "tail"
				a.N = 1 + r.intn(cfg[1]+2)
			case y < 75:
				a.Start = "real"
				a.N = r.intn(1000)
			case y < 88:
				a.Start = "forged"
				a.Pos = int64(r.intn(16)) - 3
			case y < 94:
				a.Start = "foreign"
				a.N = r.intn(8)
				a.Pos = int64(r.intn(6))
			case y < 97:
				a.Start = "garbage"
				a.N = r.intn(24)
				a.Pos = int64(r.next())
			default:
				a.Start = "overlong"
				a.N = r.intn(1000)
				a.Pos = int64(r.intn(16))
			}

			// the initial bookmark (Noop) of a tail / bookmark start must encode the adjusted start position
			if a.Mode != "single" && a.Start != "default" && r.chance(2, 5) {
				a.BootBm = true
			}

			sc.Acts = append(sc.Acts, a)
		case x < 95:
			if nextK == 0 {
				continue
			}

			sc.Acts = append(sc.Acts, wAct{Op: "recv", K: r.intn(nextK)})
		default:
			sc.Acts = append(sc.Acts, wAct{Op: "list"})
		}
	}

	return sc
}

// exhaustive small scope: every action string of length L over a small alphabet for tiny capacities
func enumWatchScenarios(length int) []wScenario {
	type sym struct {
		name string
		mk   func(k *int, ver map[string]uint64) wAct
	}

	var out []wScenario

	alphabet := []string{"wa", "wb", "da", "start_kind", "start_single", "recv0", "recv1"}

	for _, cfg := range [][3]int{{1, 1, 0}, {2, 2, 0}, {2, 2, 1}, {3, 3, 1}, {1, 2, 0}} {
		var rec func(prefix []string)

		rec = func(prefix []string) {
			if len(prefix) == length {
				sc := wScenario{InitCap: cfg[0], MaxCap: cfg[1], Gap: cfg[2]}
				present := map[string]bool{}
				k := 0

				for _, s := range prefix {
					switch s {
					case "wa", "wb":
						id := s[1:]
						o := &sOp{NS: "n1", Typ: "T", ID: id, Exp: "any", Payload: "p1"}

						if present[id] {
							o.Op, o.VerRel = "update", "cur"
						} else {
							o.Op, o.VerRel = "create", "undef"
							present[id] = true
						}

						sc.Acts = append(sc.Acts, wAct{Op: "write", W: o})
					case "da":
						sc.Acts = append(sc.Acts, wAct{Op: "write", W: &sOp{Op: "destroy", NS: "n1", Typ: "T", ID: "a"}})
						delete(present, "a")
					case "start_kind":
						if k < 2 {
							sc.Acts = append(sc.Acts, wAct{Op: "start", K: k, Mode: "kind", Start: "default", Bootstrap: true})
							k++
						}
					case "start_single":
						if k < 2 {
							sc.Acts = append(sc.Acts, wAct{Op: "start", K: k, Mode: "single", ID: "a", Start: "default"})
							k++
						}
					case "recv0":
						sc.Acts = append(sc.Acts, wAct{Op: "recv", K: 0})
					case "recv1":
						sc.Acts = append(sc.Acts, wAct{Op: "recv", K: 1})
					}
				}

				out = append(out, sc)

				return
			}

			for _, a := range alphabet {
				rec(append(prefix, a))
			}
		}
		rec(nil)
	}

	return out
}

func runWatchProperty(t *testing.T, prop string, rule string, gen func(r *rng) []wScenario, extra ...func(rep *Report)) {
	dir := outDir(t)
	rep := newReport(prop, rule)

	var scs []wScenario

	if rp := os.Getenv("VERIF_REPLAY"); rp != "" {
		b, err := os.ReadFile(rp)
		if err != nil {
			t.Fatal(err)
		}

		var rf struct {
			Case wScenario `json:"case"`
		}

		if err := json.Unmarshal(b, &rf); err != nil {
			t.Fatal(err)
		}

		// a replay of a sampled phase (no scenario inside) re-runs that phase
		if len(rf.Case.Acts) == 0 {
			for _, x := range extra {
				x(rep)
			}

			rep.write(t, dir)

			return
		}

		scs = append(scs, rf.Case)
	} else {
		scs = gen(newRng(seed(), prop))
	}

	runWatchScenarios(t, dir, rep, prop, scs)

	if os.Getenv("VERIF_REPLAY") == "" {
		for _, x := range extra {
			x(rep)
		}
	}

	rep.write(t, dir)
}

// concurrentEstablishment samples the one thing the scenarios above serialise away: a bootstrapped kind watch being
// established WHILE writers commit. The model takes the snapshot and the start position from the same state (in the
// code: under one hold of the collection mutex), so snapshot + events must be a gap-free chain per resource: every
// Updated event's old version is the version the subscriber holds, and the subscriber ends at the store's versions.
func concurrentEstablishment(t *testing.T, rep *Report) {
	ctx, cancel := context.WithCancel(context.Background())
	defer cancel()

	const (
		writers = 4
		burst   = 40
	)

	r := newRng(seed(), "C02conc")
	kind := resource.NewMetadata("n1", "T", "", resource.VersionUndefined)

	for attempt := range tier(300, 6000) {
		st := inmem.NewStateWithOptions(inmem.WithHistoryInitialCapacity(4096), inmem.WithHistoryMaxCapacity(4096), inmem.WithHistoryGap(0))("n1")

		for w := range writers {
			if err := st.Create(ctx, newRes("n1", "T", fmt.Sprintf("w%d", w), "p0")); err != nil {
				t.Fatal(err)
			}
		}

		var wg sync.WaitGroup

		start := make(chan struct{})

		for w := range writers {
			wg.Add(1)

			go func() {
				defer wg.Done()

				<-start

				for range burst {
					cur, err := st.Get(ctx, resource.NewMetadata("n1", "T", fmt.Sprintf("w%d", w), resource.VersionUndefined))
					if err != nil {
						return
					}

					cur.(*Res).SetPayload(bumpPayload(cur.(*Res).Payload())) //nolint:forcetypeassert

					if st.Update(ctx, cur) != nil {
						return
					}
				}
			}()
		}

		agg := attempt%2 == 1
		spin := r.intn(4000)
		wctx, wstop := context.WithCancel(ctx)
		ch := make(chan state.Event, writers*burst+16)
		aggCh := make(chan []state.Event, writers*burst+16)

		close(start)

		for i := 0; i < spin; i++ { //nolint:revive
			_ = i
		}

		var err error
		if agg {
			err = st.WatchKindAggregated(wctx, kind, aggCh, state.WithBootstrapContents(true))
		} else {
			err = st.WatchKind(wctx, kind, ch, state.WithBootstrapContents(true))
		}

		if err != nil {
			t.Fatal(err)
		}

		wg.Wait()

		final := map[string]string{}

		l, err := st.List(ctx, kind)
		if err != nil {
			t.Fatal(err)
		}

		for _, x := range l.Items {
			final[x.Metadata().ID()] = x.Metadata().Version().String()
		}

		have := map[string]string{}
		problem := ""
		deadline := time.After(5 * time.Second)

		apply := func(e state.Event) {
			switch e.Type {
			case state.Created:
				have[e.Resource.Metadata().ID()] = e.Resource.Metadata().Version().String()
			case state.Updated:
				id := e.Resource.Metadata().ID()
				if e.Old != nil && have[id] != e.Old.Metadata().Version().String() && problem == "" {
					problem = fmt.Sprintf("resource %q: the subscriber holds version %s (from the bootstrap snapshot and the events so far) but the next Updated event is %s -> %s: committed changes were silently skipped",
						id, have[id], e.Old.Metadata().Version(), e.Resource.Metadata().Version())
				}

				have[id] = e.Resource.Metadata().Version().String()
			case state.Errored:
				problem = "unexpected Errored: " + e.Error.Error()
			case state.Destroyed, state.Bootstrapped, state.Noop:
			}
		}

		caughtUp := func() bool {
			for id, v := range final {
				if have[id] != v {
					return false
				}
			}

			return true
		}

	recv:
		for !caughtUp() && problem == "" {
			select {
			case e := <-ch:
				apply(e)
			case es := <-aggCh:
				for _, e := range es {
					apply(e)
				}
			case <-deadline:
				problem = fmt.Sprintf("the subscriber never reaches the store's contents: it holds %v, the store holds %v", have, final)

				break recv
			}
		}

		wstop()

		rep.count(fmt.Sprint("conc", attempt), true)
		rep.hit("concurrent_establishment")

		if problem != "" {
			rep.violateKey(attempt, "bootstrap-cut", "bootstrap-cut: a kind watch with bootstrap contents established while writers commit: "+problem,
				map[string]any{"concurrent_establishment": map[string]any{"attempt": attempt, "aggregated": agg, "writers": writers, "burst": burst}, "problem": problem})

			return
		}
	}
}

// runWatchScenarios runs the scenarios on the real code, compares every delivered batch with the model (WatchCheck) and
// applies the Go-side monitors; results go into rep.
func runWatchScenarios(t *testing.T, dir string, rep *Report, prop string, scs []wScenario) {
	const shard = 120

	var (
		f  *coqFile
		jl []any
		n  int
	)

	flush := func() {
		if f != nil {
			f.finishSharded(t, dir, rep, jl, 400)
			f, jl = nil, nil
		}
	}

	for i, sc := range scs {
		r := runWatchScenario(t, sc)

		if f == nil {
			f = newCoqFile(fmt.Sprintf("%s_watch_%d", prop, n/shard), []string{"Store", "StoreCheck", "Ring", "WatchCheck"}, "wcase", "watch_mismatches")
		}

		f.add(r.coq)
		jl = append(jl, map[string]any{"case": sc})
		n++

		if n%shard == 0 {
			flush()
		}

		key, _ := json.Marshal(sc)
		rep.count(string(key), len(r.flags) > 0)

		for fl := range r.flags {
			rep.hit(fl)
		}

		if len(r.flags) >= 3 && len(sc.Acts) > 8 {
			rep.sample(map[string]any{"scenario": sc, "observed_prefix": r.coq[:min(len(r.coq), 500)]})
		}

		for _, p := range r.problems {
			rep.violateKey(i, strings.SplitN(p, ":", 2)[0], p, map[string]any{"case": sc})
		}
	}

	flush()
}

// burstWhileIdle: a caught-up, parked watcher and then more than `capacity` commits before it gets to run again (one
// processor, no yield inside the burst). Whatever the scheduler did, the subscriber must afterwards hold a gap-free
// continuation of what it had - or have been told Errored. Silence about a gap is the violation.
func burstWhileIdle(t *testing.T, rep *Report) {
	prev := runtime.GOMAXPROCS(1)
	defer runtime.GOMAXPROCS(prev)

	for it := range tier(40, 400) {
		capacity := 2 + it%5
		burst := capacity + 1 + it%7
		agg := it%2 == 1

		var problem string

		synctest.Test(t, func(t *testing.T) {
			ctx, cancel := context.WithCancel(context.Background())
			defer cancel()

			st := inmem.NewStateWithOptions(inmem.WithHistoryInitialCapacity(capacity), inmem.WithHistoryMaxCapacity(capacity), inmem.WithHistoryGap(0))("n1")
			kind := resource.NewMetadata("n1", "T", "", resource.VersionUndefined)
			ch := make(chan state.Event)
			aggCh := make(chan []state.Event)

			var err error
			if agg {
				err = st.WatchKindAggregated(ctx, kind, aggCh)
			} else {
				err = st.WatchKind(ctx, kind, ch)
			}

			if err != nil {
				t.Fatal(err)
			}

			var got []state.Event

			recvAll := func() {
				for {
					synctest.Wait()

					select {
					case e := <-ch:
						got = append(got, e)
					case es := <-aggCh:
						got = append(got, es...)
					default:
						return
					}
				}
			}

			if err := st.Create(ctx, newRes("n1", "T", "r000", "p")); err != nil {
				t.Fatal(err)
			}

			recvAll() // the watcher has delivered r000 and is parked, caught up

			for i := 1; i <= burst; i++ {
				if err := st.Create(ctx, newRes("n1", "T", fmt.Sprintf("r%03d", i), "p")); err != nil {
					t.Fatal(err)
				}
			}

			recvAll()

			next, errored := 0, false

			for _, e := range got {
				switch {
				case errored:
					problem = "an event was delivered after Errored"
				case e.Type == state.Errored:
					errored = true
				case e.Type == state.Created && e.Resource.Metadata().ID() == fmt.Sprintf("r%03d", next):
					next++
				default:
					if problem == "" {
						problem = fmt.Sprintf("after r%03d the subscriber was handed %v %s: %d committed change(s) were skipped without an Errored event", next-1, e.Type, e.Resource.Metadata().ID(), burst+1-next)
					}
				}
			}

			if problem == "" && !errored && next != burst+1 {
				problem = fmt.Sprintf("the subscriber holds %d of %d events and was never told Errored", next, burst+1)
			}

			cancel()
			synctest.Wait()
		})

		rep.count(fmt.Sprint("burstidle", it), true)
		rep.hit("burst_while_idle")

		if problem != "" {
			rep.violateKey(it, "silent-gap", fmt.Sprintf("silent-gap: capacity %d, a burst of %d commits while the caught-up watcher was parked (aggregated=%v): %s", capacity, burst, agg, problem),
				map[string]any{"burst_while_idle": map[string]any{"capacity": capacity, "burst": burst, "aggregated": agg}, "problem": problem})

			return
		}
	}
}

func TestC02(t *testing.T) {
	runWatchProperty(t, "C02",
		"bootstrapped kind watches established while 4 writers commit (free-running goroutines): snapshot + events must chain without a gap per resource; a burst of more than capacity commits while a caught-up watcher is parked (one processor): gap-free continuation or Errored; watch scenarios on inmem with (initcap,maxcap,gap) from a grid forcing growth, wrap-around and the overrun boundary: writes / start watcher (single|kind|aggregated, bootstrap, selector) / recv, "+
			"synctest.Wait() after every action (stalled consumers = watchers not received from); every delivered batch compared with the model; plus every action string of length<=L over 7 symbols for tiny capacities; "+
			"non-trivial = overrun, rejected start, Updated chain or replay check exercised; distinct by scenario",
		func(r *rng) []wScenario {
			var scs []wScenario

			for l := 2; l <= tier(3, 5); l++ {
				scs = append(scs, enumWatchScenarios(l)...)
			}

			for range tier(300, 8000) {
				sc := genWatchScenario(r, 10+r.intn(50), "inmem")
				// C02 is about default/bootstrap watches; bookmark/tail starts belong to C12
				for i := range sc.Acts {
					if sc.Acts[i].Op == "start" && sc.Acts[i].Start != "default" {
						sc.Acts[i].Start = "default"
						sc.Acts[i].N = 0
					}
				}

				scs = append(scs, sc)
			}

			return scs
		}, func(rep *Report) {
			burstWhileIdle(t, rep)
			concurrentEstablishment(t, rep)
			rep.Assumptions = append(rep.Assumptions, "interleavings inside one Watch call (snapshot vs start position) are sampled by free-running writers, not enumerated")
		})
}

func TestC12(t *testing.T) {
	runWatchProperty(t, "C12",
		"watch scenarios as C02 where watchers start from tail sizes 1..maxcap+2 and from bookmarks: real delivered ones (any earlier event of any watcher), forged positions -3..12 under the real cookie, "+
			"foreign-cookie and garbage byte strings of length 0..23; accept/reject, error class and the resumed stream compared with the model; non-trivial = a bookmark start or a rejection occurred",
		func(r *rng) []wScenario {
			var scs []wScenario

			for range tier(400, 10000) {
				scs = append(scs, genWatchScenario(r, 15+r.intn(50), "inmem"))
			}

			return scs
		})
}
