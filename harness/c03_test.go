package harness

import (
	"context"
	"encoding/json"
	"errors"
	"fmt"
	"os"
	"strings"
	"sync"
	"testing"
	"testing/synctest"
	"time"

	"github.com/cosi-project/runtime/pkg/resource"
	"github.com/cosi-project/runtime/pkg/state"
	"github.com/cosi-project/runtime/pkg/state/impl/inmem"
	"github.com/cosi-project/runtime/pkg/state/impl/namespaced"
)

// ---- replayable description of a helper scenario ------------------------------------------------

type mutSpec struct {
	Op   string   `json:"op"` // noop | fail | settd | addfin | remfin | setspec | setlabel | bump | seq
	Fins []string `json:"fins,omitempty"`
	K    string   `json:"k,omitempty"`
	V    string   `json:"v,omitempty"`
	A    *mutSpec `json:"a,omitempty"`
	B    *mutSpec `json:"b,omitempty"`
}

func (m mutSpec) apply(r resource.Resource) error {
	switch m.Op {
	case "noop":
	case "fail":
		return errors.New("mutator failed")
	case "settd":
		r.Metadata().SetPhase(resource.PhaseTearingDown)
	case "addfin":
		for _, f := range m.Fins {
			r.Metadata().Finalizers().Add(f)
		}
	case "remfin":
		for _, f := range m.Fins {
			r.Metadata().Finalizers().Remove(f)
		}
	case "setspec":
		r.(*Res).SetPayload(m.V) //nolint:forcetypeassert
	case "setlabel":
		r.Metadata().Labels().Set(m.K, m.V)
	case "bump":
		// not idempotent: "" -> "c0", otherwise the second byte + 1 (Helpers.MBump)
		rr := r.(*Res) //nolint:forcetypeassert
		rr.SetPayload(bumpPayload(rr.Payload()))
	case "seq":
		if err := m.A.apply(r); err != nil {
			return err
		}

		return m.B.apply(r)
	}

	return nil
}

func (m mutSpec) coq() string {
	atoms := func(xs []string) string {
		out := make([]string, len(xs))
		for i, x := range xs {
			out[i] = coqAtom(x)
		}

		return coqList(out)
	}

	switch m.Op {
	case "noop":
		return "MNoop"
	case "fail":
		return "MFail"
	case "settd":
		return "MSetTD"
	case "addfin":
		return "(MAddFin " + atoms(m.Fins) + ")"
	case "remfin":
		return "(MRemFin " + atoms(m.Fins) + ")"
	case "setspec":
		return "(MSetSpec " + coqAtom(m.V) + ")"
	case "setlabel":
		return fmt.Sprintf("(MSetLabel %s %s)", coqAtom(m.K), coqAtom(m.V))
	case "bump":
		return "MBump"
	case "seq":
		return fmt.Sprintf("(MSeq %s %s)", m.A.coq(), m.B.coq())
	}

	panic("bad mutator")
}

func bumpPayload(p string) string {
	if p == "" {
		return "c0"
	}

	b := []byte(p)
	for len(b) < 2 {
		b = append(b, 0)
	}

	b[1]++

	return string(b)
}

// bumpCount is the number of bumps a payload shows: "pN" (created as p0) -> N, "cN" (created by Modify from nothing) -> N+1.
func bumpCount(p string) (int, bool) {
	if len(p) != 2 {
		return 0, false
	}

	switch p[0] {
	case 'p':
		return int(p[1]) - '0', true
	case 'c':
		return int(p[1]) - '0' + 1, true
	}

	return 0, false
}

func (m mutSpec) setsTD() bool {
	switch m.Op {
	case "settd":
		return true
	case "seq":
		return m.A.setsTD() || m.B.setsTD()
	}

	return false
}

func (m mutSpec) setsSpec() bool {
	switch m.Op {
	case "setspec":
		return true
	case "seq":
		return m.A.setsSpec() || m.B.setsSpec()
	}

	return false
}

type hCall struct {
	Kind      string   `json:"kind"` // uwc | teardown | addfin | remfin | modify | tad | watchfor | ctx
	ID        string   `json:"id"`
	Mut       mutSpec  `json:"mut"`
	Owner     string   `json:"owner,omitempty"`
	Exp       string   `json:"exp,omitempty"` // "" (default running) | running | tearingDown | any
	Fins      []string `json:"fins,omitempty"`
	FinsEmpty bool     `json:"fins_empty,omitempty"`
	Phases    []string `json:"phases,omitempty"`
	EvTypes   []int    `json:"evtypes,omitempty"`
}

type envOp struct {
	Kind  string `json:"kind"` // create | destroy | addfin | remfin | settd | touch
	ID    string `json:"id"`
	Fin   string `json:"fin,omitempty"`
	Owner string `json:"owner,omitempty"`
	V     string `json:"v,omitempty"`
	TD    bool   `json:"td,omitempty"` // create: the new resource is born tearing down
}

type hChoice struct {
	T   int    `json:"t"` // thread index, -1 = environment
	Env *envOp `json:"env,omitempty"`
}

type hCase struct {
	Calls []hCall   `json:"calls"`
	Sched []hChoice `json:"sched"`
}

func expCoq(exp string) string {
	switch exp {
	case "running", "":
		return "(Some false)"
	case "tearingDown":
		return "(Some true)"
	}

	return "None"
}

func (c hCall) coq() string {
	key := coqKey("n1", "T", c.ID)
	mut := c.Mut

	kind := ""

	switch c.Kind {
	case "uwc":
		kind = "KUwc"
	case "teardown":
		kind, mut = "KTeardown", mutSpec{Op: "settd"}
	case "addfin":
		kind, mut = "KFin", mutSpec{Op: "addfin", Fins: c.Fins}
	case "remfin":
		kind, mut = "KFin", mutSpec{Op: "remfin", Fins: c.Fins}
	case "modify":
		kind = fmt.Sprintf("(KModify (mkRes %s %s %s None 0%%N false [] [] 0%%Z 0%%Z %s))", coqAtom("n1"), coqAtom("T"), coqAtom(c.ID), coqAtom("e0"))
	case "tad":
		kind, mut = "KTeardownAndDestroy", mutSpec{Op: "settd"}
	case "watchfor":
		ph := make([]string, len(c.Phases))
		for i, p := range c.Phases {
			ph[i] = coqBool(p == "tearingDown")
		}

		et := make([]string, len(c.EvTypes))
		for i, e := range c.EvTypes {
			et[i] = coqN(uint64(e))
		}

		kind, mut = fmt.Sprintf("(KWatchFor %s %s %s)", coqBool(c.FinsEmpty), coqList(ph), coqList(et)), mutSpec{Op: "noop"}
	case "ctx":
		kind, mut = "KCtxTeardown", mutSpec{Op: "noop"}
	}

	return fmt.Sprintf("(mkCall %s %s %s %s %s)", kind, key, mut.coq(), coqAtom(c.Owner), expCoq(c.Exp))
}

type helperResult struct {
	done bool
	coq  string
	res  resource.Resource // uwc / modify: the returned object
}

func errToOres(err error) string {
	return fmt.Sprintf("(OrErr (%s, %s, %s, %s))", coqBool(state.IsNotFoundError(err)), coqBool(state.IsOwnerConflictError(err)),
		coqBool(state.IsPhaseConflictError(err)), coqBool(state.IsConflictError(err)))
}

// runHelperCase drives real wrap.go helpers over gate(inmem) with an explicit schedule.
func runHelperCase(t *testing.T, hc hCase) (coq string, problems []string, flags map[string]bool) {
	flags = map[string]bool{}

	synctest.Test(t, func(t *testing.T) {
		ctx, cancel := context.WithCancel(context.Background())
		defer cancel()

		inner := namespaced.NewState(inmem.Build)
		gate := newGate(inner)
		st := state.WrapCore(gate)
		t0 := time.Now()

		var (
			mu      sync.Mutex
			results = make([]helperResult, len(hc.Calls))
			ctxs    = make([]context.Context, len(hc.Calls))
		)

		ptr := func(id string) resource.Metadata {
			return resource.NewMetadata("n1", "T", id, resource.VersionUndefined)
		}

		for i, c := range hc.Calls {
			tctx := withTid(ctx, i)

			go func() {
				var (
					out string
					ret resource.Resource
				)

				uopts := func() []state.UpdateOption {
					opts := []state.UpdateOption{state.WithUpdateOwner(c.Owner)}

					switch c.Exp {
					case "running":
						opts = append(opts, state.WithExpectedPhase(resource.PhaseRunning))
					case "tearingDown":
						opts = append(opts, state.WithExpectedPhase(resource.PhaseTearingDown))
					case "any":
						opts = append(opts, state.WithExpectedPhaseAny())
					}

					return opts
				}

				switch c.Kind {
				case "uwc":
					r, err := st.UpdateWithConflicts(tctx, ptr(c.ID), c.Mut.apply, uopts()...)
					if err != nil {
						out = errToOres(err)
					} else {
						out = "(OrOk " + coqRes(r, t0) + ")"
						ret = r
					}
				case "modify":
					r, err := st.ModifyWithResult(tctx, newRes("n1", "T", c.ID, "e0"), c.Mut.apply, uopts()...)
					if err != nil {
						out = errToOres(err)
					} else {
						out = "(OrOk " + coqRes(r, t0) + ")"
						ret = r
					}
				case "teardown":
					ready, err := st.Teardown(tctx, ptr(c.ID), state.WithTeardownOwner(c.Owner))
					if err != nil {
						out = errToOres(err)
					} else {
						out = "(OrReady " + coqBool(ready) + ")"
					}
				case "addfin":
					if err := st.AddFinalizer(tctx, ptr(c.ID), c.Fins...); err != nil {
						out = errToOres(err)
					} else {
						out = "OrNil"
					}
				case "remfin":
					if err := st.RemoveFinalizer(tctx, ptr(c.ID), c.Fins...); err != nil {
						out = errToOres(err)
					} else {
						out = "OrNil"
					}
				case "tad":
					if err := st.TeardownAndDestroy(tctx, ptr(c.ID), state.WithTeardownAndDestroyOwner(c.Owner)); err != nil {
						out = errToOres(err)
					} else {
						out = "OrNil"
					}
				case "watchfor":
					var conds []state.WatchForConditionFunc
					if c.FinsEmpty {
						conds = append(conds, state.WithFinalizerEmpty())
					}

					if len(c.Phases) > 0 {
						var phases []resource.Phase

						for _, p := range c.Phases {
							if p == "tearingDown" {
								phases = append(phases, resource.PhaseTearingDown)
							} else {
								phases = append(phases, resource.PhaseRunning)
							}
						}

						conds = append(conds, state.WithPhases(phases...))
					}

					if len(c.EvTypes) > 0 {
						var ets []state.EventType
						for _, e := range c.EvTypes {
							ets = append(ets, state.EventType(e))
						}

						conds = append(conds, state.WithEventTypes(ets...))
					}

					r, err := st.WatchFor(tctx, ptr(c.ID), conds...)

					switch {
					case err != nil:
						out = errToOres(err)
					case resource.IsTombstone(r):
						out = "OrDestroyedMatched"
					default:
						out = "(OrOk " + coqRes(r, t0) + ")"
					}
				case "ctx":
					cctx, err := st.ContextWithTeardown(tctx, ptr(c.ID))
					if err != nil {
						out = errToOres(err)
					} else {
						mu.Lock()
						ctxs[i] = cctx
						mu.Unlock()

						return // result is read from the context at the end
					}
				}

				mu.Lock()
				results[i] = helperResult{done: true, coq: out, res: ret}
				mu.Unlock()
			}()
		}

		synctest.Wait()

		var steps []string

		isDone := func(i int) bool {
			mu.Lock()
			defer mu.Unlock()

			return results[i].done
		}

		for _, ch := range hc.Sched {
			time.Sleep(time.Millisecond)

			now := int64(time.Since(t0))

			if ch.T < 0 {
				e := ch.Env

				var cop string

				switch e.Kind {
				case "create":
					r := newRes("n1", "T", e.ID, e.V)
					r.Metadata().SetCreated(t0)
					r.Metadata().SetUpdated(t0)

					if e.Fin != "" {
						r.Metadata().Finalizers().Add(e.Fin)
					}

					if e.TD {
						r.Metadata().SetPhase(resource.PhaseTearingDown)
					}

					cop = fmt.Sprintf("(OpCreate %s %s)", coqRes(r, t0), coqAtom(e.Owner))
					inner.Create(ctx, r, state.WithCreateOwner(e.Owner)) //nolint:errcheck
				case "destroy":
					owner := ""
					if cur, err := inner.Get(ctx, ptr(e.ID)); err == nil {
						owner = cur.Metadata().Owner()
					}

					cop = fmt.Sprintf("(OpDestroy %s %s)", coqKey("n1", "T", e.ID), coqAtom(owner))
					inner.Destroy(ctx, ptr(e.ID), state.WithDestroyOwner(owner)) //nolint:errcheck
				default:
					cur, err := inner.Get(ctx, ptr(e.ID))
					if err != nil {
						continue
					}

					switch e.Kind {
					case "addfin":
						cur.Metadata().Finalizers().Add(e.Fin)
					case "remfin":
						cur.Metadata().Finalizers().Remove(e.Fin)
					case "settd":
						cur.Metadata().SetPhase(resource.PhaseTearingDown)
					case "touch":
						cur.(*Res).SetPayload(e.V) //nolint:forcetypeassert
					}

					cop = fmt.Sprintf("(OpUpdate %s %s None)", coqRes(cur, t0), coqAtom(cur.Metadata().Owner()))
					inner.Update(ctx, cur, state.WithUpdateOwner(cur.Metadata().Owner()), state.WithExpectedPhaseAny()) //nolint:errcheck
				}

				synctest.Wait()

				// the monitors need the total order of committed values: note what the store holds after an environment step
				if cur, err := inner.Get(ctx, ptr(e.ID)); err == nil {
					gate.record(gateLogEntry{Tid: -1, Kind: "update", Res: cur})
				} else {
					gate.record(gateLogEntry{Tid: -1, Kind: "destroy", Ptr: ptr(e.ID)})
				}

				steps = append(steps, fmt.Sprintf("(CEnv %s %s, ONone)", coqZ(now), cop))
				flags["env:"+e.Kind] = true

				continue
			}

			kind := "ONone"

			switch pk := gate.pendingKind(ch.T); {
			case pk != "":
				kind = map[string]string{"get": "OGet", "update": "OUpdate", "create": "OCreate", "destroy": "ODestroy", "watch": "OWatch", "list": "ONone"}[pk]
				gate.release(ch.T)
			case !isDone(ch.T) && gate.canDeliver(ch.T):
				if gate.deliver(ch.T) {
					kind = "ORecv"
				}
			}

			synctest.Wait()
			steps = append(steps, fmt.Sprintf("(CThread %d %s, %s)", ch.T, coqZ(now), kind))
		}

		// final results
		finals := make([]string, len(hc.Calls))

		for i, c := range hc.Calls {
			mu.Lock()
			r := results[i]
			cctx := ctxs[i]
			mu.Unlock()

			switch {
			case c.Kind == "ctx" && cctx != nil:
				if cctx.Err() != nil {
					finals[i] = "OrCancelled"
					flags["ctx_cancelled"] = true
				} else {
					finals[i] = "OrPending"
				}
			case r.done:
				finals[i] = r.coq

				if strings.HasPrefix(r.coq, "(OrErr") {
					flags["helper_error"] = true
				} else {
					flags["helper_ok:"+c.Kind] = true
				}
			default:
				finals[i] = "OrPending"
				flags["pending"] = true
			}
		}

		listing, err := coqListOf(ctx, inner, "n1", "T", t0)
		if err != nil {
			t.Fatal(err)
		}

		calls := make([]string, len(hc.Calls))
		for i, c := range hc.Calls {
			calls[i] = c.coq()
		}

		coq = fmt.Sprintf("(%s, %s, %s, (%s, %s), %s)", coqList(calls), coqList(steps), coqList(finals), coqAtom("n1"), coqAtom("T"), listing)

		// Go-side monitors on the committed-write log (independent of the model)
		problems = append(problems, helperMonitors(ctx, inner, gate, hc, results, &mu)...)

		cancel()
		synctest.Wait()
	})

	return coq, problems, flags
}

// helperMonitors checks C03/C04 clauses directly on the implementation run.
func helperMonitors(ctx context.Context, inner state.CoreState, gate *gateState, hc hCase, results []helperResult, mu *sync.Mutex) []string {
	var problems []string

	gate.mu.Lock()
	log := append([]gateLogEntry(nil), gate.log...)
	gate.mu.Unlock()

	for i, c := range hc.Calls {
		mu.Lock()
		r := results[i]
		mu.Unlock()

		if !r.done {
			continue
		}

		writes := 0

		for _, e := range log {
			if e.Tid == i && e.Err == nil && (e.Kind == "update" || e.Kind == "create") {
				writes++
			}
		}

		failed := strings.HasPrefix(r.coq, "(OrErr")

		// C04, on the committed-write log: a successful non-idempotent mutation is applied exactly once on top of the
		// then-current value, the returned object is the committed one, and a call expecting phase running never
		// reports success with a tearing-down object it did not tear down itself
		if (c.Kind == "uwc" || c.Kind == "modify") && !failed {
			var prev, mine resource.Resource

			for _, e := range log {
				if e.Err != nil {
					continue
				}

				switch e.Kind {
				case "update", "create":
					if e.Res.Metadata().ID() != c.ID {
						continue
					}

					if e.Tid == i {
						mine = e.Res

						if c.Mut.Op == "bump" {
							base := "e0"
							if prev != nil {
								base = payloadOf(prev)
							}

							if got := payloadOf(e.Res); got != bumpPayload(base) {
								problems = append(problems, fmt.Sprintf("applied-twice: %s call %d reported success; its non-idempotent mutation committed %q on top of %q (expected %q)", c.Kind, i, got, base, bumpPayload(base)))
							}
						}
					}

					prev = e.Res
				case "destroy":
					if e.Ptr.ID() == c.ID {
						prev = nil
					}
				}
			}

			if c.Mut.Op == "bump" && mine == nil {
				problems = append(problems, fmt.Sprintf("lost-mutation: %s call %d reported success for a non-idempotent mutation but committed no write", c.Kind, i))
			}

			if mine != nil && r.res != nil && (payloadOf(mine) != payloadOf(r.res) || !mine.Metadata().Version().Equal(r.res.Metadata().Version())) {
				problems = append(problems, fmt.Sprintf("returned-object: %s call %d committed %s/%q but returned %s/%q", c.Kind, i,
					mine.Metadata().Version(), payloadOf(mine), r.res.Metadata().Version(), payloadOf(r.res)))
			}

			if (c.Exp == "" || c.Exp == "running") && r.res != nil && r.res.Metadata().Phase() == resource.PhaseTearingDown && !c.Mut.setsTD() {
				problems = append(problems, fmt.Sprintf("phase-into-success: %s call %d expects phase running, reported success and returned a tearing-down object", c.Kind, i))
			}
		}

		// C03: a Teardown that reports ready-to-destroy must have seen, at some point between its first and its last store
		// call, the resource tearing down with an empty finalizer set (whoever did the marking)
		if c.Kind == "teardown" && r.coq == "(OrReady true)" {
			var (
				cur       resource.Resource
				first     = -1
				last      = -1
				sawReady  bool
				readyHere = func() bool {
					return cur != nil && cur.Metadata().Phase() == resource.PhaseTearingDown && cur.Metadata().Finalizers().Empty()
				}
			)

			for j, e := range log {
				if e.Tid == i {
					if first < 0 {
						first = j
					}

					last = j
				}
			}

			for j, e := range log {
				if j == first {
					sawReady = sawReady || readyHere() // the state its first read can see
				}

				if e.Err == nil {
					switch e.Kind {
					case "create", "update":
						if e.Res.Metadata().ID() == c.ID {
							cur = e.Res
						}
					case "destroy":
						if e.Ptr != nil && e.Ptr.ID() == c.ID {
							cur = nil
						}
					}
				}

				if first >= 0 && j >= first && j <= last {
					sawReady = sawReady || readyHere()
				}
			}

			if first >= 0 && !sawReady {
				problems = append(problems, fmt.Sprintf("ready-never-true: Teardown call %d reported ready, but at no point during the call was the resource tearing down with an empty finalizer set", i))
			}
		}

		if c.Kind == "teardown" && r.coq == "(OrReady true)" {
			for _, e := range log {
				if e.Tid == i && e.Err == nil && e.Kind == "update" && !e.Res.Metadata().Finalizers().Empty() {
					problems = append(problems, fmt.Sprintf("ready-with-finalizers: Teardown call %d reported ready, but the marking write it committed carries finalizers %v", i, *e.Res.Metadata().Finalizers()))
				}
			}
		}

		switch c.Kind {
		case "uwc", "addfin", "remfin", "modify", "teardown":
			if failed && writes > 0 {
				problems = append(problems, fmt.Sprintf("effect-on-error: %s call %d returned an error but committed %d write(s)", c.Kind, i, writes))
			}

			if writes > 1 {
				problems = append(problems, fmt.Sprintf("applied-twice: %s call %d committed %d writes", c.Kind, i, writes))
			}
		case "tad":
			if r.coq == "OrNil" {
				if _, err := inner.Get(ctx, resource.NewMetadata("n1", "T", c.ID, resource.VersionUndefined)); err == nil {
					// it may have been re-created by the environment afterwards; only flag if no create followed the destroy
					recreated := false

					for _, ch := range hc.Sched {
						if ch.T < 0 && ch.Env.Kind == "create" && ch.Env.ID == c.ID {
							recreated = true
						}
					}

					if !recreated {
						problems = append(problems, "tad-not-gone: TeardownAndDestroy returned nil but the resource still exists")
					}
				}
			}
		}
	}

	return problems
}

// ---- generators -----------------------------------------------------------------------------------

var envMenu = []envOp{
	{Kind: "addfin", ID: "a", Fin: "f1"}, {Kind: "remfin", ID: "a", Fin: "f1"}, {Kind: "settd", ID: "a"},
	{Kind: "destroy", ID: "a"}, {Kind: "create", ID: "a", V: "p9"}, {Kind: "touch", ID: "a", V: "p7"},
	// a new incarnation that starts at version 1 again and already satisfies a phase condition
	{Kind: "create", ID: "a", V: "p8", TD: true},
}

func c03Calls() []hCall {
	return []hCall{
		{Kind: "tad", ID: "a"},
		{Kind: "teardown", ID: "a"},
		{Kind: "watchfor", ID: "a", FinsEmpty: true},
		{Kind: "watchfor", ID: "a", Phases: []string{"tearingDown"}},
		{Kind: "watchfor", ID: "a", EvTypes: []int{2}},
		{Kind: "ctx", ID: "a"},
	}
}

func genHelperCases(r *rng, prop string) []hCase {
	var cases []hCase

	create := func(fin string) hChoice {
		return hChoice{T: -1, Env: &envOp{Kind: "create", ID: "a", V: "p0", Fin: fin}}
	}

	switch prop {
	case "C03":
		n := tier(6, 9)
		maxGapDist := tier(1, 100)

		for _, call := range c03Calls() {
			for _, fin := range []string{"", "f1"} {
				if fin == "f1" && !thorough() && (call.Kind == "ctx" || len(call.EvTypes) > 0) {
					continue
				}

				// every placement of <=2 environment operations into every gap of the helper's steps
				for g1 := 0; g1 <= n; g1++ {
					for e1 := range envMenu {
						for g2 := g1; g2 <= n && g2-g1 <= maxGapDist; g2++ {
							for e2 := -1; e2 < len(envMenu); e2++ {
								if e2 < 0 && g2 != g1 {
									continue
								}

								hc := hCase{Calls: []hCall{call}, Sched: []hChoice{create(fin)}}

								for s := 0; s <= n; s++ {
									if s == g1 {
										hc.Sched = append(hc.Sched, hChoice{T: -1, Env: &envMenu[e1]})
									}

									if s == g2 && e2 >= 0 {
										hc.Sched = append(hc.Sched, hChoice{T: -1, Env: &envMenu[e2]})
									}

									if s < n {
										hc.Sched = append(hc.Sched, hChoice{T: 0})
									}
								}

								cases = append(cases, hc)
							}
						}
					}
				}
			}
		}

		// random: two blocked helpers plus environment
		for range tier(300, 6000) {
			calls := c03Calls()
			hc := hCase{Calls: []hCall{pick(r, calls), pick(r, calls)}, Sched: []hChoice{create(pick(r, []string{"", "f1"}))}}

			for range 6 + r.intn(14) {
				if r.chance(1, 3) {
					hc.Sched = append(hc.Sched, hChoice{T: -1, Env: &envMenu[r.intn(len(envMenu))]})
				} else {
					hc.Sched = append(hc.Sched, hChoice{T: r.intn(2)})
				}
			}

			cases = append(cases, hc)
		}
	case "C04":
		muts := []mutSpec{
			{Op: "noop"}, {Op: "fail"}, {Op: "setspec", V: "p1"}, {Op: "setspec", V: "p2"}, {Op: "setlabel", K: "l0", V: "v1"},
			{Op: "addfin", Fins: []string{"f2"}}, {Op: "remfin", Fins: []string{"f1"}}, {Op: "settd"}, {Op: "bump"}, {Op: "bump"},
			{Op: "seq", A: &mutSpec{Op: "setspec", V: "p3"}, B: &mutSpec{Op: "setlabel", K: "l1", V: "v0"}},
		}
		owners := []string{"", "", "o1"}
		exps := []string{"", "any", "tearingDown"}

		mkCall := func() hCall {
			switch r.intn(6) {
			case 0:
				return hCall{Kind: "teardown", ID: "a", Owner: pick(r, owners)}
			case 1:
				return hCall{Kind: "addfin", ID: "a", Fins: []string{pick(r, []string{"f1", "f2"})}}
			case 2:
				return hCall{Kind: "remfin", ID: "a", Fins: []string{pick(r, []string{"f1", "f2"})}}
			case 3:
				return hCall{Kind: "modify", ID: "a", Mut: pick(r, muts), Owner: pick(r, owners), Exp: pick(r, exps)}
			default:
				return hCall{Kind: "uwc", ID: "a", Mut: pick(r, muts), Owner: pick(r, owners), Exp: pick(r, exps)}
			}
		}

		// all interleavings of two callers, each at most 4 store calls
		for range tier(12, 120) {
			c0, c1 := mkCall(), mkCall()
			owner := pick(r, owners)

			for mask := 0; mask < 1<<8; mask++ {
				hc := hCase{Calls: []hCall{c0, c1}}

				if !r.chance(1, 6) || c0.Kind != "modify" {
					hc.Sched = append(hc.Sched, hChoice{T: -1, Env: &envOp{Kind: "create", ID: "a", V: "p0", Owner: owner, Fin: "f1"}})
				}

				for b := range 8 {
					hc.Sched = append(hc.Sched, hChoice{T: (mask >> b) & 1})
				}

				// run both to completion
				for range 6 {
					hc.Sched = append(hc.Sched, hChoice{T: 0}, hChoice{T: 1})
				}

				cases = append(cases, hc)
			}
		}

		// random 3-4 callers with environment updates
		for range tier(400, 8000) {
			n := 3 + r.intn(2)
			hc := hCase{}

			for range n {
				hc.Calls = append(hc.Calls, mkCall())
			}

			if r.chance(5, 6) {
				hc.Sched = append(hc.Sched, hChoice{T: -1, Env: &envOp{Kind: "create", ID: "a", V: "p0", Owner: pick(r, owners), Fin: pick(r, []string{"", "f1"})}})
			}

			for range 10 + r.intn(25) {
				if r.chance(1, 8) {
					hc.Sched = append(hc.Sched, hChoice{T: -1, Env: &envOp{Kind: pick(r, []string{"touch", "addfin", "settd"}), ID: "a", Fin: "f3", V: "p8"}})
				} else {
					hc.Sched = append(hc.Sched, hChoice{T: r.intn(n)})
				}
			}

			for range 8 {
				for i := range n {
					hc.Sched = append(hc.Sched, hChoice{T: i})
				}
			}

			cases = append(cases, hc)
		}
	}

	return cases
}

func runHelperProperty(t *testing.T, prop, rule string) {
	dir := outDir(t)
	rep := newReport(prop, rule)

	var cases []hCase

	if rp := os.Getenv("VERIF_REPLAY"); rp != "" {
		b, err := os.ReadFile(rp)
		if err != nil {
			t.Fatal(err)
		}

		var rf struct {
			Case hCase `json:"case"`
		}

		if err := json.Unmarshal(b, &rf); err != nil {
			t.Fatal(err)
		}

		cases = append(cases, rf.Case)
	} else {
		cases = genHelperCases(newRng(seed(), prop), prop)
	}

	const shard = 600

	var (
		f  *coqFile
		jl []any
		n  int
	)

	flush := func() {
		if f != nil {
			f.finishSharded(t, dir, rep, jl, 400)
			f, jl = nil, nil
		}
	}

	for i, hc := range cases {
		coq, problems, flags := runHelperCase(t, hc)

		if f == nil {
			f = newCoqFile(fmt.Sprintf("%s_helpers_%d", prop, n/shard), []string{"Store", "StoreCheck", "Helpers", "HelpersCheck"}, "hcase", "helper_mismatches")
		}

		f.add(coq)
		jl = append(jl, map[string]any{"case": hc})
		n++

		if n%shard == 0 {
			flush()
		}

		key, _ := json.Marshal(hc)
		rep.count(string(key), len(flags) >= 2)

		for fl := range flags {
			rep.hit(fl)
		}

		if i%1013 == 7 {
			rep.sample(map[string]any{"case": hc, "observed_prefix": coq[:min(len(coq), 700)]})
		}

		for _, p := range problems {
			rep.violateKey(i, strings.SplitN(p, ":", 2)[0], p, map[string]any{"case": hc})
		}
	}

	flush()
	rep.Assumptions = append(rep.Assumptions, "a single-resource watch delivers the exact event stream of its id (C02); watch overruns are not injected in the correspondence runs")
	rep.write(t, dir)
}

func TestC03(t *testing.T) {
	runHelperProperty(t, "C03", "gate-proxy schedules: TeardownAndDestroy / Teardown / WatchFor (3 conditions) / ContextWithTeardown on gate(inmem), one store call or watch delivery at a time; "+
		"every placement of <=2 environment operations (add/remove finalizer, teardown, destroy, re-create, touch) into every gap of the helper's steps, with and without an initial finalizer, plus random two-helper schedules; "+
		"compared: each CoreState call kind, final result/ready flag/ctx state, final store; non-trivial = at least two of (env op kinds, helper outcome kinds) occurred")
}

func TestC04(t *testing.T) {
	runHelperProperty(t, "C04", "gate-proxy schedules: 2-4 concurrent UpdateWithConflicts / Modify / AddFinalizer / RemoveFinalizer / Teardown callers on one resource with mutators from a small algebra (incl. no-op and failing), "+
		"owners and expected phases varied; all 256 interleavings of the first 8 steps for two callers, random schedules for 3-4 callers with environment updates; "+
		"compared: each call kind, returned objects / error classes, final stored value; Go-side monitor: an erroring call committed nothing, no call commits twice")
}
