package harness

import (
	"context"
	"encoding/json"
	"errors"
	"fmt"
	"os"
	"sort"
	"sync"
	"sync/atomic"
	"testing"
	"testing/synctest"
	"time"

	"go.uber.org/zap"

	"github.com/cosi-project/runtime/pkg/controller"
	cruntime "github.com/cosi-project/runtime/pkg/controller/runtime"
	"github.com/cosi-project/runtime/pkg/controller/runtime/options"
	"github.com/cosi-project/runtime/pkg/resource"
	"github.com/cosi-project/runtime/pkg/state"
	"github.com/cosi-project/runtime/pkg/state/impl/inmem"
	"github.com/cosi-project/runtime/pkg/state/impl/namespaced"
)

// ---- scenario -----------------------------------------------------------------------------------

type pProbe struct {
	Name    string   `json:"name"`
	Flavour string   `json:"flavour"` // r | q
	Ins     []inSpec `json:"ins"`
	Busy    int64    `json:"busy,omitempty"`  // virtual ns spent in every reconcile
	Late    bool     `json:"late,omitempty"`  // registered after Run
	Defer   bool     `json:"defer,omitempty"` // registered by a "register" step, concurrently with the following writes
	Fail    bool     `json:"fail,omitempty"`  // every reconcile fails (C16: must not affect the others)
}

type pWrite struct {
	Op  string `json:"op"` // create | touch | addfin | remfin | teardown | destroy | sleep | quiesce | addinput | delinput | kindinput
	Typ string `json:"typ,omitempty"`
	ID  string `json:"id,omitempty"`
	D   int64  `json:"d,omitempty"`
	// addinput / delinput: dynamic UpdateInputs of an r-probe (delinput drops the input at index N)
	Probe string  `json:"probe,omitempty"`
	In    *inSpec `json:"in,omitempty"`
	N     int     `json:"n,omitempty"`
}

type pScenario struct {
	SlowWatch int64    `json:"slow_watch,omitempty"` // virtual ns every watch set up after Run started takes to establish
	Probes    []pProbe `json:"probes"`
	Cached    bool     `json:"cached,omitempty"` // kind n1/T is cached
	// the runtime sees the state through a re-batching layer (a remote or proxying state): watch batches that follow each
	// other within a millisecond are merged, so one batch may carry bootstrap contents, the Bootstrapped marker and live events
	Coalesce bool     `json:"coalesce,omitempty"`
	Pre      []pWrite `json:"pre,omitempty"` // before Run
	Steps    []pWrite `json:"steps"`
}

// slowWatchState delays the establishment of kind watches (a slow or remote state).
type slowWatchState struct {
	state.State
	delay   time.Duration
	running *atomic.Bool
}

func (s *slowWatchState) WatchKindAggregated(ctx context.Context, kind resource.Kind, ch chan<- []state.Event, opts ...state.WatchKindOption) error {
	if s.delay > 0 && s.running.Load() {
		select {
		case <-ctx.Done():
			return ctx.Err()
		case <-time.After(s.delay):
		}
	}

	return s.State.WatchKindAggregated(ctx, kind, ch, opts...)
}

// shared bookkeeping: one global sequence over commits and reconcile starts
type pBook struct {
	seq       atomic.Int64
	mu        sync.Mutex
	lastStart map[string]map[string]int64 // probe -> key ("*" for whole-controller reconciles) -> seq
	starts    map[string][]string         // probe -> jobs started since last reset ("R:key", "M:key", "*")
	total     map[string]int              // probe -> jobs started in the whole run
	storm     map[string]bool             // probes that were started absurdly often (ineffective backoff): parked
}

// stormLimit is far above what any scenario can legitimately start (restart and requeue backoffs start at hundreds of
// milliseconds of virtual time and grow); beyond it a probe parks itself so that a zero-delay retry loop cannot spin
// for ever inside a synctest bubble, and the run reports it.
const stormLimit = 20000

// start records a job; it reports true when the probe must park itself (retry storm).
func (b *pBook) start(probe, key, job string) bool {
	s := b.seq.Add(1)

	b.mu.Lock()
	defer b.mu.Unlock()

	if b.total == nil {
		b.total, b.storm = map[string]int{}, map[string]bool{}
	}

	b.total[probe]++

	if b.total[probe] > stormLimit {
		b.storm[probe] = true

		return true
	}

	if b.lastStart[probe] == nil {
		b.lastStart[probe] = map[string]int64{}
	}

	b.lastStart[probe][key] = s
	b.starts[probe] = append(b.starts[probe], job)

	return false
}

func (b *pBook) storms() (out []string) {
	b.mu.Lock()
	defer b.mu.Unlock()

	for p := range b.storm {
		out = append(out, fmt.Sprintf("retry-storm: probe %s was started more than %d times in one scenario: its restart / requeue backoff is not effective", p, stormLimit))
	}

	sort.Strings(out)

	return out
}

type pipeProbeR struct {
	name string
	ins  []controller.Input
	busy time.Duration
	book *pBook
	fail bool

	mu sync.Mutex
	rt controller.Runtime
}

func (p *pipeProbeR) Name() string                 { return p.name }
func (p *pipeProbeR) Outputs() []controller.Output { return nil }

func (p *pipeProbeR) Inputs() []controller.Input {
	p.mu.Lock()
	defer p.mu.Unlock()

	return append([]controller.Input(nil), p.ins...)
}

func (p *pipeProbeR) Run(ctx context.Context, r controller.Runtime, _ *zap.Logger) error {
	p.mu.Lock()
	p.rt = r
	p.mu.Unlock()

	for {
		select {
		case <-ctx.Done():
			return nil
		case <-r.EventCh():
		}

		if p.book.start(p.name, "*", "*") {
			<-ctx.Done()

			return nil
		}

		if p.busy > 0 {
			select {
			case <-ctx.Done():
				return nil
			case <-time.After(p.busy):
			}
		}

		if p.fail {
			return errors.New("probe fails")
		}
	}
}

type pipeProbeQ struct {
	name string
	ins  []controller.Input
	busy time.Duration
	book *pBook
	fail bool
}

func (p *pipeProbeQ) Name() string { return p.name }

func (p *pipeProbeQ) Settings() controller.QSettings {
	return controller.QSettings{Inputs: p.ins, Concurrency: optionalUint(2)}
}

func (p *pipeProbeQ) Reconcile(ctx context.Context, _ *zap.Logger, _ controller.QRuntime, ptr resource.Pointer) error {
	if p.book.start(p.name, ptr.Type()+"/"+ptr.ID(), "R:"+ptr.Type()+"/"+ptr.ID()) {
		<-ctx.Done()

		return nil
	}

	if p.busy > 0 {
		select {
		case <-ctx.Done():
		case <-time.After(p.busy):
		}
	}

	if p.fail {
		return errors.New("probe fails")
	}

	return nil
}

// MapInput maps a change of U/x (or any non-primary kind) to the primary T/x.
func (p *pipeProbeQ) MapInput(_ context.Context, _ *zap.Logger, _ controller.QRuntime, md controller.ReducedResourceMetadata) ([]resource.Pointer, error) {
	p.book.start(p.name, "map:"+md.Type()+"/"+md.ID(), "M:"+md.Type()+"/"+md.ID())

	return []resource.Pointer{resource.NewMetadata("n1", "T", md.ID(), resource.VersionUndefined)}, nil
}

type pLatest struct {
	seq       int64
	tearing   bool
	finsEmpty bool
	exists    bool
}

// wantsGo is the property-level statement of who must be woken (per input, independent of the code under test).
func wantsGo(p pProbe, typ, id string, v pLatest) (reconcileKeys []string) {
	for _, in := range p.Ins {
		if in.NS != "n1" || in.Typ != typ || (in.ID != nil && *in.ID != id) {
			continue
		}

		dr := v.tearing && v.finsEmpty && v.exists // "for every resource currently tearing down without finalizers"

		switch in.Kind {
		case 0, 1:
			reconcileKeys = append(reconcileKeys, "*")
		case 2:
			if dr {
				reconcileKeys = append(reconcileKeys, "*")
			}
		case 3:
			reconcileKeys = append(reconcileKeys, typ+"/"+id)
		case 4:
			reconcileKeys = append(reconcileKeys, "T/"+id) // the primary the mapper names
		case 5:
			if dr {
				reconcileKeys = append(reconcileKeys, "T/"+id)
			}
		}
	}

	return reconcileKeys
}

type pResult struct {
	problems []string
	// trigger table rows: one per isolated write: Coq rendering
	rows  []string
	flags map[string]bool
}

func runPipeScenario(t *testing.T, sc pScenario, table bool) (res pResult) {
	res.flags = map[string]bool{}

	// the run extends / shrinks the probes' input lists (dynamic inputs): work on a private copy so that the scenario
	// that ends up in a replay file is the one that was given
	probes := make([]pProbe, len(sc.Probes))
	for i, p := range sc.Probes {
		p.Ins = append([]inSpec(nil), p.Ins...)
		probes[i] = p
	}

	sc.Probes = probes

	synctest.Test(t, func(t *testing.T) {
		ctx, cancel := context.WithCancel(context.Background())
		defer cancel()

		st := state.WrapCore(namespaced.NewState(inmem.Build))
		book := &pBook{lastStart: map[string]map[string]int64{}, starts: map[string][]string{}}
		latest := map[string]pLatest{}

		var opts []options.Option
		if sc.Cached {
			opts = append(opts, options.WithCachedResource("n1", "T"))
		}

		var running atomic.Bool

		var under state.State = st
		if sc.Coalesce {
			under = &coalescingState{State: st}
			res.flags["coalesced_batches"] = true
		}

		rt, err := cruntime.NewRuntime(&slowWatchState{State: under, delay: time.Duration(sc.SlowWatch), running: &running}, zap.NewNop(), opts...)
		if err != nil {
			t.Fatal(err)
		}

		rprobes := map[string]*pipeProbeR{}
		regSeq := map[string]int64{}

		register := func(p pProbe) {
			regSeq[p.Name] = book.seq.Add(1)

			ins := make([]controller.Input, len(p.Ins))
			for i, in := range p.Ins {
				ins[i] = in.input()
			}

			if p.Flavour == "r" {
				pr := &pipeProbeR{name: p.Name, ins: ins, busy: time.Duration(p.Busy), book: book, fail: p.Fail}
				rprobes[p.Name] = pr

				if err := rt.RegisterController(pr); err != nil {
					t.Fatalf("register %s: %v", p.Name, err)
				}
			} else {
				if err := rt.RegisterQController(&pipeProbeQ{name: p.Name, ins: ins, busy: time.Duration(p.Busy), book: book, fail: p.Fail}); err != nil {
					t.Fatalf("register %s: %v", p.Name, err)
				}
			}
		}

		// s is the sequence number drawn BEFORE the write was issued: a reconcile that started after the commit has a
		// larger number for sure (one that started between drawing and commit may not have seen the change and is accepted:
		// the monitor never raises an alarm because of the order in which this goroutine and the controllers are scheduled)
		commit := func(s int64, typ, id string, destroyed resource.Resource) {

			r, err := st.Get(ctx, resource.NewMetadata("n1", typ, id, resource.VersionUndefined))
			if err != nil {
				// the Destroyed event carries the resource as it was: that is what the triggers see
				l := pLatest{seq: s}
				if destroyed != nil {
					l.tearing = destroyed.Metadata().Phase() == resource.PhaseTearingDown
					l.finsEmpty = destroyed.Metadata().Finalizers().Empty()
				}

				latest[typ+"/"+id] = l

				return
			}

			latest[typ+"/"+id] = pLatest{seq: s, exists: true, tearing: r.Metadata().Phase() == resource.PhaseTearingDown, finsEmpty: r.Metadata().Finalizers().Empty()}
		}

		doWrite := func(w pWrite) bool {
			ptr := resource.NewMetadata("n1", w.Typ, w.ID, resource.VersionUndefined)
			seqBefore := book.seq.Add(1)

			switch w.Op {
			case "create":
				if err := st.Create(ctx, newRes("n1", w.Typ, w.ID, "p0")); err != nil {
					return false
				}
			case "touch", "addfin", "remfin", "teardown":
				cur, err := st.Get(ctx, ptr)
				if err != nil {
					return false
				}

				switch w.Op {
				case "touch":
					cur.(*Res).SetPayload(fmt.Sprintf("p%d", book.seq.Load())) //nolint:forcetypeassert
				case "addfin":
					if !cur.Metadata().Finalizers().Add("f1") {
						return false
					}
				case "remfin":
					if !cur.Metadata().Finalizers().Remove("f1") {
						return false
					}
				case "teardown":
					if cur.Metadata().Phase() == resource.PhaseTearingDown {
						return false
					}

					cur.Metadata().SetPhase(resource.PhaseTearingDown)
				}

				if err := st.Update(ctx, cur, state.WithExpectedPhaseAny()); err != nil {
					return false
				}
			case "destroy":
				cur, err := st.Get(ctx, ptr)
				if err != nil {
					return false
				}

				if err := st.Destroy(ctx, ptr); err != nil {
					return false
				}

				commit(seqBefore, w.Typ, w.ID, cur)

				return true
			default:
				return false
			}

			commit(seqBefore, w.Typ, w.ID, nil)

			return true
		}

		for _, w := range sc.Pre {
			doWrite(w)
		}

		for _, p := range sc.Probes {
			if !p.Late && !p.Defer {
				register(p)
			}
		}

		done := make(chan error, 1)

		go func() { done <- rt.Run(ctx) }()

		synctest.Wait()
		running.Store(true)

		for _, p := range sc.Probes {
			if p.Late && !p.Defer {
				register(p)
			}
		}

		registered := map[string]bool{}

		inputAdded := map[string]map[string]int64{}

		probeByName := map[string]*pProbe{}
		for i := range sc.Probes {
			probeByName[sc.Probes[i].Name] = &sc.Probes[i]
		}

		quiesce := func(when string) {
			// let every busy period and backoff elapse, then wait for quiet
			time.Sleep(10 * time.Minute)
			synctest.Wait()

			book.mu.Lock()
			defer book.mu.Unlock()

			for _, p := range sc.Probes {
				if p.Defer && !registered[p.Name] {
					continue
				}

				for key, v := range latest {
					typ, id := splitKey(key)

					// an input added later obliges the runtime only for changes committed after it was added (a controller
					// that extends its inputs does so inside a reconcile and reads what is there already)
					eff := *probeByName[p.Name]
					eff.Ins = nil

					for _, in := range probeByName[p.Name].Ins {
						if inputAdded[p.Name][in.coq()] < v.seq {
							eff.Ins = append(eff.Ins, in)
						}
					}

					for _, want := range wantsGo(eff, typ, id, v) {
						if want != "*" && v.seq == 0 {
							continue
						}

						// a change of a mapped input committed before the controller was registered is covered by the
						// start-up listing of the primaries that exist, not by a map job
						if typ != "T" && p.Flavour == "q" && v.seq < regSeq[p.Name] {
							continue
						}

						// a primary that was destroyed before the controller was registered is not listed at start-up
						if p.Flavour == "q" && typ == "T" && !v.exists && v.seq < regSeq[p.Name] {
							continue
						}

						if book.lastStart[p.Name][want] <= v.seq {
							res.problems = append(res.problems, fmt.Sprintf(
								"lost-wakeup: %s controller %q (inputs %s) did not start reconcile %q after the latest change of n1/%s (change seq %d, last start %d) [%s]",
								p.Flavour, p.Name, renderIns(p.Ins), want, key, v.seq, book.lastStart[p.Name][want], when))
						}
					}
				}
			}
		}

		// start-up: every controller must have reconciled what existed before it started
		quiesce("after start")

		if len(sc.Pre) > 0 {
			res.flags["preexisting"] = true
		}

		for i, w := range sc.Steps {
			switch w.Op {
			case "sleep":
				time.Sleep(time.Duration(w.D))
			case "quiesce":
				quiesce(fmt.Sprintf("step %d", i))
			case "delinput":
				pr, ok := rprobes[w.Probe]
				if !ok {
					continue
				}

				pr.mu.Lock()
				r := pr.rt

				if r == nil || len(pr.ins) < 2 || w.N >= len(pr.ins) {
					pr.mu.Unlock()

					continue
				}

				pr.ins = append(append([]controller.Input(nil), pr.ins[:w.N]...), pr.ins[w.N+1:]...)
				ins := append([]controller.Input(nil), pr.ins...)
				pr.mu.Unlock()

				if err := r.UpdateInputs(ins); err != nil {
					t.Fatalf("UpdateInputs: %v", err)
				}

				pi := probeByName[w.Probe]
				pi.Ins = append(append([]inSpec(nil), pi.Ins[:w.N]...), pi.Ins[w.N+1:]...)
				res.flags["dynamic_input_removed"] = true
			case "kindinput":
				// the same input key is passed again with another kind (e.g. destroy-ready -> weak): from now on the new
				// kind's rules decide which changes wake the controller
				pr, ok := rprobes[w.Probe]
				if !ok || w.In == nil {
					continue
				}

				pr.mu.Lock()
				r := pr.rt

				if r == nil || w.N >= len(pr.ins) || int(pr.ins[w.N].Kind) == w.In.Kind {
					pr.mu.Unlock()

					continue
				}

				pr.ins = append([]controller.Input(nil), pr.ins...)
				pr.ins[w.N].Kind = controller.InputKind(w.In.Kind)
				ins := append([]controller.Input(nil), pr.ins...)
				pr.mu.Unlock()

				if err := r.UpdateInputs(ins); err != nil {
					t.Fatalf("UpdateInputs: %v", err)
				}

				pi := probeByName[w.Probe]
				pi.Ins = append([]inSpec(nil), pi.Ins...)
				pi.Ins[w.N].Kind = w.In.Kind

				if inputAdded[w.Probe] == nil {
					inputAdded[w.Probe] = map[string]int64{}
				}

				inputAdded[w.Probe][pi.Ins[w.N].coq()] = book.seq.Add(1)
				res.flags["dynamic_input_kind_changed"] = true
			case "addinput":
				pr, ok := rprobes[w.Probe]
				if !ok {
					continue
				}

				pr.mu.Lock()
				r := pr.rt
				pr.ins = append(pr.ins, w.In.input())
				ins := append([]controller.Input(nil), pr.ins...)
				pr.mu.Unlock()

				if r == nil {
					continue
				}

				if err := r.UpdateInputs(ins); err != nil {
					t.Fatalf("UpdateInputs: %v", err)
				}

				probeByName[w.Probe].Ins = append(probeByName[w.Probe].Ins, *w.In)

				if inputAdded[w.Probe] == nil {
					inputAdded[w.Probe] = map[string]int64{}
				}

				inputAdded[w.Probe][w.In.coq()] = book.seq.Add(1)
				res.flags["dynamic_input"] = true
			default:
				if table {
					// isolate this write: quiet before, quiet after, record who woke
					time.Sleep(10 * time.Minute)
					synctest.Wait()

					book.mu.Lock()
					book.starts = map[string][]string{}
					book.mu.Unlock()
				}

				if !doWrite(w) {
					continue
				}

				if table {
					time.Sleep(10 * time.Minute)
					synctest.Wait()

					v := latest[w.Typ+"/"+w.ID]

					book.mu.Lock()
					for _, p := range sc.Probes {
						jobs := append([]string(nil), book.starts[p.Name]...)
						sort.Strings(jobs)
						res.rows = append(res.rows, renderTriggerRow(p, w.Typ, w.ID, v, jobs))
					}
					book.mu.Unlock()
				}
			}
		}

		quiesce("end")

		res.problems = append(res.problems, book.storms()...)

		cancel()
		<-done
		synctest.Wait()
	})

	return res
}

func splitKey(k string) (string, string) {
	for i := range k {
		if k[i] == '/' {
			return k[:i], k[i+1:]
		}
	}

	return k, ""
}

func renderIns(ins []inSpec) string {
	s := ""
	for _, in := range ins {
		id := "*"
		if in.ID != nil {
			id = *in.ID
		}

		s += fmt.Sprintf("[%s/%s kind=%d]", in.Typ, id, in.Kind)
	}

	return s
}

// renderTriggerRow: (flavour_is_q, inputs, key, value, observed jobs) for the Coq trigger table.
func renderTriggerRow(p pProbe, typ, id string, v pLatest, jobs []string) string {
	cins := make([]string, len(p.Ins))
	for i, in := range p.Ins {
		cins[i] = in.coq()
	}

	// observed: for r: woke or not; for q: number of reconcile jobs and map jobs started for this key
	// (mapped reconciles of the primary are a consequence of the map job and are not counted here)
	woke := len(jobs) > 0
	nRec, nMap := 0, 0

	for _, j := range jobs {
		switch j {
		case "R:" + typ + "/" + id:
			if typ == "T" {
				nRec++
			}
		case "M:" + typ + "/" + id:
			nMap++
		}
	}

	return fmt.Sprintf("(%s, %s, %s, mkRv %s %s, %s, %d%%nat, %d%%nat)", coqBool(p.Flavour == "q"), coqList(cins), coqKey("n1", typ, id),
		coqBool(v.tearing), coqBool(v.finsEmpty), coqBool(woke), nRec, nMap)
}

// ---- generators -------------------------------------------------------------------------------------------

func genPipeProbes(r *rng) []pProbe {
	var probes []pProbe

	mkIn := func(q bool) inSpec {
		in := inSpec{NS: "n1", Typ: pick(r, []string{"T", "U"}), ID: pick(r, []*string{nil, nil, sp("a"), sp("b")})}
		if q {
			in.Kind = 3 + r.intn(3)
			if in.Kind == 3 {
				in.Typ = "T"
			} else {
				in.Typ = "U"
			}
		} else {
			in.Kind = r.intn(3)
		}

		return in
	}

	n := 1 + r.intn(3)
	for i := range n {
		p := pProbe{Name: fmt.Sprintf("c%d", i), Busy: pick(r, []int64{0, 0, 1e6, 50e6, 2e9}), Late: r.chance(1, 4)}

		if r.chance(1, 2) {
			p.Flavour = "r"

			seen := map[string]bool{}
			for range 1 + r.intn(3) {
				in := mkIn(false)
				k := in.Typ + "/" + fmt.Sprint(in.ID != nil)
				if in.ID != nil {
					k += *in.ID
				}

				if !seen[k] {
					seen[k] = true
					p.Ins = append(p.Ins, in)
				}
			}
		} else {
			p.Flavour = "q"
			p.Ins = []inSpec{{NS: "n1", Typ: "T", Kind: 3}}

			// up to two mapped inputs (plain and destroy-ready, by kind and by id) - also on the same kind, where every
			// declared input keeps its own wake-up rule
			seen := map[string]bool{}

			for range r.intn(3) {
				in := mkIn(true)
				if in.Kind == 3 {
					continue
				}

				k := in.Typ + "/" + fmt.Sprint(in.ID != nil)
				if in.ID != nil {
					k += *in.ID
				}

				if !seen[k] {
					seen[k] = true
					p.Ins = append(p.Ins, in)
				}
			}
		}

		probes = append(probes, p)
	}

	return probes
}

func genPipeWrites(r *rng, n int) []pWrite {
	var ws []pWrite

	for len(ws) < n {
		w := pWrite{Typ: pick(r, []string{"T", "U"}), ID: pick(r, []string{"a", "b"})}

		switch x := r.intn(100); {
		case x < 22:
			w.Op = "create"
		case x < 45:
			w.Op = "touch"
		case x < 57:
			w.Op = "addfin"
		case x < 69:
			w.Op = "remfin"
		case x < 80:
			w.Op = "teardown"
		case x < 88:
			w.Op = "destroy"
		case x < 95:
			w = pWrite{Op: "sleep", D: pick(r, []int64{1e6, 20e6, 1e9})}
		default:
			w = pWrite{Op: "quiesce"}
		}

		ws = append(ws, w)

		// bursts on one key
		if r.chance(1, 5) && w.Typ != "" {
			for range 1 + r.intn(3) {
				ws = append(ws, pWrite{Op: pick(r, []string{"touch", "touch", "addfin", "remfin"}), Typ: w.Typ, ID: w.ID})
			}
		}
	}

	return ws
}

func TestC05(t *testing.T) {
	dir := outDir(t)
	rep := newReport("C05", "black-box: a real Runtime on inmem under synctest with 1-3 probe Controllers/QControllers (weak/strong/destroy-ready/primary/mapped/mapped-destroy-ready inputs, by kind and by id, busy times 0..2s, registered before or after Run, cached kind or not, dynamic UpdateInputs), plus real-time phases (outside synctest): registering a controller with slow watch set-up concurrently with a burst on several keys, and two controllers adding an input on the same fresh kind while its watch is being set up, "+
		"random write histories with bursts on one key and pre-existing resources; at every quiescence (all virtual timers elapsed, all goroutines blocked) the monitor requires that each controller started the required reconcile after the latest change of every resource it must be woken for (global sequence numbers); "+
		"trigger table: isolated writes, observed wake-ups / queue jobs per controller compared with the model's r_trigger / q_jobs; non-trivial = pre-existing contents, late registration, busy controller or dynamic input; distinct by scenario")

	type c05Case struct {
		Kind string    `json:"kind"` // run | table | regburst
		Sc   pScenario `json:"sc"`
		N    int       `json:"n,omitempty"` // regburst: keys in the burst
		Q    bool      `json:"q,omitempty"` // regburst: the late controller is a QController
	}

	var cases []c05Case

	if rp := os.Getenv("VERIF_REPLAY"); rp != "" {
		b, err := os.ReadFile(rp)
		if err != nil {
			t.Fatal(err)
		}

		var rf struct {
			Case    c05Case     `json:"case"`
			Handoff *hoScenario `json:"handoff"`
		}

		if err := json.Unmarshal(b, &rf); err != nil {
			t.Fatal(err)
		}

		if rf.Handoff != nil {
			// a scenario of the hand-off phase: goroutine A alone against the scripted watch and goroutine B
			res := runHandoffA(t, *rf.Handoff)
			for _, p := range res.problems {
				rep.violateKey(0, "handoff:"+p[:min(len(p), 12)], p, map[string]any{"handoff": *rf.Handoff})
			}

			hf := newCoqFile("C05_handoff_cases", []string{"Handoff", "HandoffCheck"}, "hcase", "handoff_mismatches")
			hf.add(res.coq)
			hf.finishSharded(t, dir, rep, []any{map[string]any{"handoff": *rf.Handoff}}, 400)
			rep.write(t, dir)

			return
		}

		cases = append(cases, rf.Case)
	} else {
		r := newRng(seed(), "C05")

		// corpus: a destroy-ready input and a weak input by id on the same kind (finding F2)
		cases = append(cases, c05Case{Kind: "run", Sc: pScenario{
			Probes: []pProbe{{Name: "c0", Flavour: "r", Ins: []inSpec{{NS: "n1", Typ: "T", ID: sp("a"), Kind: 2}, {NS: "n1", Typ: "T", ID: sp("b"), Kind: 0}}}},
			Steps:  []pWrite{{Op: "quiesce"}, {Op: "create", Typ: "T", ID: "b"}, {Op: "quiesce"}, {Op: "touch", Typ: "T", ID: "b"}},
		}})

		// corpus: the same for a queue-based controller: a mapped input by id next to a mapped destroy-ready input on the
		// same kind, declared in either order - a plain update of U/a must reach the mapper and the primary it names
		for _, ins := range [][]inSpec{
			{{NS: "n1", Typ: "T", Kind: 3}, {NS: "n1", Typ: "U", ID: sp("a"), Kind: 4}, {NS: "n1", Typ: "U", Kind: 5}},
			{{NS: "n1", Typ: "T", Kind: 3}, {NS: "n1", Typ: "U", Kind: 5}, {NS: "n1", Typ: "U", ID: sp("a"), Kind: 4}},
			{{NS: "n1", Typ: "T", Kind: 3}, {NS: "n1", Typ: "U", ID: sp("a"), Kind: 4}, {NS: "n1", Typ: "U", ID: sp("b"), Kind: 5}},
		} {
			cases = append(cases, c05Case{Kind: "run", Sc: pScenario{
				Probes: []pProbe{{Name: "c0", Flavour: "q", Ins: ins}},
				Steps: []pWrite{{Op: "create", Typ: "T", ID: "a"}, {Op: "create", Typ: "U", ID: "a"}, {Op: "quiesce"}, {Op: "touch", Typ: "U", ID: "a"}, {Op: "quiesce"},
					{Op: "create", Typ: "U", ID: "b"}, {Op: "quiesce"}, {Op: "touch", Typ: "U", ID: "b"}},
			}})
		}

		// corpus: a cached kind with contents behind a re-batching layer; the first change after the start travels in the
		// same batch as the bootstrap contents and the Bootstrapped marker - it must still wake the controllers
		for _, first := range []pWrite{{Op: "touch", Typ: "T", ID: "a"}, {Op: "create", Typ: "T", ID: "b"}, {Op: "destroy", Typ: "T", ID: "a"}} {
			for _, ins := range [][]inSpec{{{NS: "n1", Typ: "T", Kind: 3}}, {{NS: "n1", Typ: "T", Kind: 0}}} {
				fl := "q"
				if ins[0].Kind == 0 {
					fl = "r"
				}

				cases = append(cases, c05Case{Kind: "run", Sc: pScenario{
					Probes: []pProbe{{Name: "c0", Flavour: fl, Ins: ins}}, Cached: true, Coalesce: true,
					Pre:   []pWrite{{Op: "create", Typ: "T", ID: "a"}},
					Steps: []pWrite{first, {Op: "quiesce"}},
				}})
			}
		}

		for range tier(250, 6000) {
			sc := pScenario{Probes: genPipeProbes(r), Cached: r.chance(1, 3)}
			sc.Coalesce = r.chance(1, 4)

			if r.chance(1, 3) || sc.Coalesce && sc.Cached {
				for range 1 + r.intn(3) {
					sc.Pre = append(sc.Pre, pWrite{Op: "create", Typ: pick(r, []string{"T", "U"}), ID: pick(r, []string{"a", "b"})})
				}
			}

			sc.Steps = genPipeWrites(r, 8+r.intn(30))

			if r.chance(1, 4) {
				for _, p := range sc.Probes {
					if p.Flavour == "r" {
						in := inSpec{NS: "n1", Typ: "U", ID: sp("b"), Kind: r.intn(3)}

						dup := false

						for _, e := range p.Ins {
							if e.Typ == "U" {
								dup = true
							}
						}

						if !dup {
							at := r.intn(len(sc.Steps))
							sc.Steps = append(sc.Steps[:at:at], append([]pWrite{{Op: "addinput", Probe: p.Name, In: &in}}, sc.Steps[at:]...)...)
						}

						break
					}
				}
			}

			if r.chance(1, 4) {
				// change the kind of an input of a running controller
				for _, p := range sc.Probes {
					if p.Flavour == "r" && len(p.Ins) >= 1 && !p.Late {
						at := r.intn(len(sc.Steps))
						sc.Steps = append(sc.Steps[:at:at], append([]pWrite{{Op: "quiesce"}, {Op: "kindinput", Probe: p.Name, N: r.intn(len(p.Ins)), In: &inSpec{Kind: r.intn(3)}}}, sc.Steps[at:]...)...)

						break
					}
				}
			}

			if r.chance(1, 3) {
				// drop one of several inputs of a running controller (by-kind and by-id inputs on one kind included)
				for _, p := range sc.Probes {
					if p.Flavour == "r" && len(p.Ins) >= 2 && !p.Late {
						at := r.intn(len(sc.Steps))
						sc.Steps = append(sc.Steps[:at:at], append([]pWrite{{Op: "quiesce"}, {Op: "delinput", Probe: p.Name, N: r.intn(len(p.Ins))}}, sc.Steps[at:]...)...)

						break
					}
				}
			}

			cases = append(cases, c05Case{Kind: "run", Sc: sc})
		}

		// corpus: a destroy-ready input turned into a weak one (and back): the new kind's wake-up rules apply from then on
		cases = append(cases, c05Case{Kind: "run", Sc: pScenario{
			Probes: []pProbe{{Name: "c0", Flavour: "r", Ins: []inSpec{{NS: "n1", Typ: "T", Kind: 2}}}},
			Steps: []pWrite{{Op: "create", Typ: "T", ID: "a"}, {Op: "quiesce"}, {Op: "kindinput", Probe: "c0", N: 0, In: &inSpec{Kind: 0}}, {Op: "quiesce"},
				{Op: "create", Typ: "T", ID: "b"}, {Op: "touch", Typ: "T", ID: "a"}, {Op: "quiesce"}, {Op: "kindinput", Probe: "c0", N: 0, In: &inSpec{Kind: 2}}, {Op: "quiesce"},
				{Op: "teardown", Typ: "T", ID: "a"}},
		}})

		// corpus: by-kind and by-id input on the same kind, the by-id one is dropped later
		cases = append(cases, c05Case{Kind: "run", Sc: pScenario{
			Probes: []pProbe{{Name: "c0", Flavour: "r", Ins: []inSpec{{NS: "n1", Typ: "T", Kind: 0}, {NS: "n1", Typ: "T", ID: sp("a"), Kind: 1}}}},
			Steps:  []pWrite{{Op: "create", Typ: "T", ID: "a"}, {Op: "quiesce"}, {Op: "delinput", Probe: "c0", N: 1}, {Op: "quiesce"}, {Op: "create", Typ: "T", ID: "b"}, {Op: "touch", Typ: "T", ID: "a"}},
		}})

		for range tier(120, 3000) {
			sc := pScenario{Probes: genPipeProbes(r)}
			for i := range sc.Probes {
				sc.Probes[i].Busy, sc.Probes[i].Late = 0, false
			}

			sc.Steps = genPipeWrites(r, 10+r.intn(15))
			cases = append(cases, c05Case{Kind: "table", Sc: sc})
		}

		// real-time phase: registration of a controller with slow watch set-up concurrent with a burst on several keys
		for n := range tier(16, 200) {
			cases = append(cases, c05Case{Kind: "regburst", Sc: pScenario{SlowWatch: int64(pick(r, []time.Duration{15, 30, 60}) * time.Millisecond)}, N: 2 + n%4, Q: n%2 == 0})
		}
	}

	if os.Getenv("VERIF_REPLAY") == "" {
		// real-time phase: two controllers add an input on the same, not yet watched kind while its watch is being set up
		for range tier(6, 60) {
			cases = append(cases, c05Case{Kind: "addrace", Sc: pScenario{SlowWatch: int64(pick(newRng(seed(), "C05race"), []time.Duration{90, 150}) * time.Millisecond)}})
		}
	}

	tf := newCoqFile("C05_trigger_table", []string{"Store", "DepDB", "Pipeline", "PipelineCheck"}, "trow", "trigger_mismatches")

	var jl []any

	for i, c := range cases {
		if c.Kind == "addrace" {
			key, _ := json.Marshal(c)
			rep.count(string(key), true)
			rep.hit(c.Kind)

			for _, p := range runConcurrentInputAdd(t, time.Duration(c.Sc.SlowWatch)) {
				rep.violateKey(i, "lost-wakeup:concurrent-input-add", p, map[string]any{"case": c})
			}

			continue
		}

		if c.Kind == "regburst" {
			key, _ := json.Marshal(c)
			rep.count(string(key), true)
			rep.hit(c.Kind)

			for _, p := range runRegistrationBurst(t, time.Duration(c.Sc.SlowWatch), c.N, c.Q) {
				rep.violateKey(i, "lost-wakeup:registration-burst", p, map[string]any{"case": c})
			}

			continue
		}

		res := runPipeScenario(t, c.Sc, c.Kind == "table")

		nontrivial := len(c.Sc.Pre) > 0 || res.flags["dynamic_input"]
		for _, p := range c.Sc.Probes {
			if p.Late || p.Busy > 0 {
				nontrivial = true
			}
		}

		key, _ := json.Marshal(c)
		rep.count(string(key), nontrivial)
		rep.hit(c.Kind)

		for f := range res.flags {
			rep.hit(f)
		}

		for _, row := range res.rows {
			tf.add(row)
			jl = append(jl, map[string]any{"case": c})
		}

		if i%61 == 5 {
			rep.sample(map[string]any{"case": c})
		}

		for _, p := range res.problems {
			k := "lost-wakeup"
			// the (destroy-ready by id + other input on the same kind) pattern has its own key
			if len(c.Sc.Probes) > 0 {
				k = lostWakeupKey(c.Sc, p)
			}

			rep.violateKey(i, k, p, map[string]any{"case": c})
		}
	}

	tf.finishSharded(t, dir, rep, jl, 400)

	if os.Getenv("VERIF_REPLAY") == "" {
		c05HandoffPhase(t, dir, rep, newRng(seed(), "C05-handoff"))
	}

	rep.Assumptions = append(rep.Assumptions, "Go scheduler fairness and channel semantics (quiescence is observed with synctest.Wait)", "kind watches deliver the exact event log (C02)")
	rep.write(t, dir)
}

// lostWakeupKey classifies a lost wake-up by the input pattern that produced it.
func lostWakeupKey(sc pScenario, problem string) string {
	for _, p := range sc.Probes {
		if p.Flavour != "r" {
			continue
		}

		for _, a := range p.Ins {
			for _, b := range p.Ins {
				if a.Kind == 2 && b.Kind != 2 && a.Typ == b.Typ {
					return "lost-wakeup:destroy-ready-filter-shadows-other-input-on-same-kind"
				}
			}
		}
	}

	return "lost-wakeup"
}

// runRegistrationBurst runs OUTSIDE synctest (a goroutine blocked on the runtime's controller mutex is not durably
// blocked, so a bubble could neither advance time nor reach quiescence): a QController with per-key reconciles is
// running, a second controller whose two fresh kinds take slowWatch to set up is registered concurrently with a
// burst of writes on several keys, then everything goes quiet.  Returns the keys never reconciled after their
// latest change within the grace period.
// runConcurrentInputAdd: the runtime is running; controller p1 adds an input on a fresh kind (its watch takes slowWatch
// to establish); while that is in flight controller p2 adds an input on the same kind. Once p2's UpdateInputs has
// returned the input is declared: a resource of that kind committed afterwards must make p2 reconcile.
func runConcurrentInputAdd(t *testing.T, slowWatch time.Duration) (problems []string) {
	ctx, cancel := context.WithCancel(context.Background())
	defer cancel()

	st := state.WrapCore(namespaced.NewState(inmem.Build))
	book := &pBook{lastStart: map[string]map[string]int64{}, starts: map[string][]string{}}

	var running atomic.Bool

	rt, err := cruntime.NewRuntime(&slowWatchState{State: st, delay: slowWatch, running: &running}, zap.NewNop())
	if err != nil {
		t.Fatal(err)
	}

	p1 := &pipeProbeR{name: "p1", book: book}
	p2 := &pipeProbeR{name: "p2", book: book}

	for _, p := range []*pipeProbeR{p1, p2} {
		if err := rt.RegisterController(p); err != nil {
			t.Fatal(err)
		}
	}

	done := make(chan error, 1)

	go func() { done <- rt.Run(ctx) }()

	rtOf := func(p *pipeProbeR) controller.Runtime {
		for {
			p.mu.Lock()
			r := p.rt
			p.mu.Unlock()

			if r != nil {
				return r
			}

			time.Sleep(time.Millisecond)
		}
	}

	r1, r2 := rtOf(p1), rtOf(p2)

	running.Store(true)

	in := []controller.Input{{Namespace: "n1", Type: "V", Kind: controller.InputWeak}}
	first := make(chan error, 1)

	go func() { first <- r1.UpdateInputs(in) }()

	time.Sleep(slowWatch / 3)

	if err := r2.UpdateInputs(in); err != nil {
		t.Fatal(err)
	}

	// p2's input is declared now
	committed := book.seq.Add(1) // drawn before the write

	if err := st.Create(ctx, newRes("n1", "V", "r1", "p0")); err != nil {
		t.Fatal(err)
	}

	if err := <-first; err != nil {
		t.Fatal(err)
	}

	deadline := time.Now().Add(slowWatch + 10*time.Second)

	for {
		book.mu.Lock()
		woke := book.lastStart["p2"]["*"] > committed
		book.mu.Unlock()

		if woke {
			break
		}

		if time.Now().After(deadline) {
			problems = append(problems, fmt.Sprintf("lost-wakeup: controller \"p2\" added a weak input on n1/V (UpdateInputs returned) while another controller's identical input was still being set up (watch set-up %v); "+
				"V/r1 was created afterwards and p2 was never reconciled", slowWatch))

			break
		}

		time.Sleep(5 * time.Millisecond)
	}

	cancel()
	<-done

	return problems
}

func runRegistrationBurst(t *testing.T, slowWatch time.Duration, nKeys int, qSecond bool) (problems []string) {
	ctx, cancel := context.WithCancel(context.Background())
	defer cancel()

	st := state.WrapCore(namespaced.NewState(inmem.Build))
	book := &pBook{lastStart: map[string]map[string]int64{}, starts: map[string][]string{}}

	var running atomic.Bool

	rt, err := cruntime.NewRuntime(&slowWatchState{State: st, delay: slowWatch, running: &running}, zap.NewNop())
	if err != nil {
		t.Fatal(err)
	}

	if err := rt.RegisterQController(&pipeProbeQ{name: "c0", ins: []controller.Input{{Namespace: "n1", Type: "T", Kind: controller.InputQPrimary}}, book: book}); err != nil {
		t.Fatal(err)
	}

	done := make(chan error, 1)

	go func() { done <- rt.Run(ctx) }()

	time.Sleep(20 * time.Millisecond)
	running.Store(true)

	regDone := make(chan error, 1)

	go func() {
		if qSecond {
			regDone <- rt.RegisterQController(&pipeProbeQ{name: "dz", ins: []controller.Input{
				{Namespace: "n1", Type: "W1", Kind: controller.InputQPrimary}, {Namespace: "n1", Type: "W2", Kind: controller.InputQMapped},
			}, book: book})
		} else {
			regDone <- rt.RegisterController(&pipeProbeR{name: "dz", ins: []controller.Input{
				{Namespace: "n1", Type: "W1", Kind: controller.InputWeak}, {Namespace: "n1", Type: "W2", Kind: controller.InputWeak},
			}, book: book})
		}
	}()

	time.Sleep(slowWatch / 3)

	latest := map[string]int64{}

	for i := range nKeys {
		id := fmt.Sprintf("k%d", i)

		before := book.seq.Add(1) // drawn before the write, see runPipeScenario

		if err := st.Create(ctx, newRes("n1", "T", id, "p0")); err != nil {
			t.Fatal(err)
		}

		latest["T/"+id] = before
	}

	if err := <-regDone; err != nil {
		t.Fatal(err)
	}

	deadline := time.Now().Add(8 * time.Second)

	for {
		missing := []string{}

		book.mu.Lock()
		for k, s := range latest {
			if book.lastStart["c0"][k] <= s {
				missing = append(missing, k)
			}
		}
		book.mu.Unlock()

		if len(missing) == 0 {
			break
		}

		if time.Now().After(deadline) {
			sort.Strings(missing)
			problems = append(problems, fmt.Sprintf("lost-wakeup: q controller \"c0\" (primary n1/T) never reconciled %v after their creation although the system went quiet "+
				"(a controller with two fresh kinds was being registered, watch set-up %v, while %d keys were created)", missing, slowWatch, nKeys))

			break
		}

		time.Sleep(10 * time.Millisecond)
	}

	cancel()
	<-done

	return problems
}
