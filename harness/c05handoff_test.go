//go:build verif

package harness

// C05, hand-off phase: the two goroutines behind Runtime.processWatched, each run alone on channels owned by the
// harness (facade VerifDeduplicateWatchEvents / VerifDeliverDeduplicatedEvents), inside a synctest bubble so that
// after each harness action the real goroutine has run until it blocked.
//   - goroutine A (deduplicateWatchEvents) real, the harness plays the watch and goroutine B: batches of
//     change / Noop / Errored events are pushed, the map is received from `ch`, one key is removed and the map is sent
//     back where B would send it, in every order the script chooses (A may take the map back from `ch` before B
//     received it); after every action the occupancy of watchCh / ch / empty and the received map are compared with
//     Handoff.v.  Monitor: a map parked on `empty` while it holds keys is a lost wake-up (nobody looks there).
//   - goroutine B (deliverDeduplicatedEvents) real, the harness plays A: B must drain the map key by key and park
//     it, empty, on `empty`.

import (
	"context"
	"fmt"
	"sort"
	"testing"
	"testing/synctest"

	"go.uber.org/zap"

	cruntime "github.com/cosi-project/runtime/pkg/controller/runtime"
	"github.com/cosi-project/runtime/pkg/resource"
	"github.com/cosi-project/runtime/pkg/state"
	"github.com/cosi-project/runtime/pkg/state/impl/inmem"
	"github.com/cosi-project/runtime/pkg/state/impl/namespaced"
)

type hoEvent struct {
	Kind string `json:"k"` // change | noop | errored
	ID   string `json:"id,omitempty"`
	Tear bool   `json:"tear,omitempty"`
	Fin  bool   `json:"fin,omitempty"`
}

type hoAction struct {
	Op    string    `json:"op"` // push | recv | back
	Batch []hoEvent `json:"batch,omitempty"`
	Pick  int       `json:"pick,omitempty"` // back: index (mod size) of the key to take, in sorted order
}

type hoScenario struct {
	Actions []hoAction `json:"actions"`
}

var hoIDs = []string{"a", "b", "c", "d"}

func hoKeyAtom(id string) uint64 { return uint64(id[0]-'a') + 1 }

func (e hoEvent) event() state.Event {
	switch e.Kind {
	case "noop":
		return state.Event{Type: state.Noop}
	case "errored":
		return state.Event{Type: state.Errored, Error: fmt.Errorf("injected watch failure")}
	}

	r := newRes("n1", "T", e.ID, "x")
	if e.Tear {
		r.Metadata().SetPhase(resource.PhaseTearingDown)
	}

	if e.Fin {
		r.Metadata().Finalizers().Add("f")
	}

	return state.Event{Type: state.Updated, Resource: r}
}

func hoValue(tear, finsEmpty bool) uint64 {
	v := uint64(0)
	if tear {
		v += 2
	}

	if finsEmpty {
		v++
	}

	return v
}

func (e hoEvent) coq() string {
	switch e.Kind {
	case "noop":
		return "EvNoop"
	case "errored":
		return "EvErrored"
	}

	return fmt.Sprintf("(EvChange %s %s)", coqN(hoKeyAtom(e.ID)), coqN(hoValue(e.Tear, !e.Fin)))
}

func coqDedup(m cruntime.VerifDedup) string {
	keys := make([]string, 0, len(m))
	for k := range m {
		keys = append(keys, k.ID)
	}

	sort.Strings(keys)

	items := make([]string, len(keys))
	for i, id := range keys {
		v := m[cruntime.VerifReducedKey{Namespace: "n1", Typ: "T", ID: id}]
		items[i] = fmt.Sprintf("(%s, %s)", coqN(hoKeyAtom(id)), coqN(hoValue(v.Phase == resource.PhaseTearingDown, v.FinalizersEmpty)))
	}

	return coqList(items)
}

func genHoScenario(r *rng) hoScenario {
	var sc hoScenario

	holding := false // does the harness (as B) hold the map

	for range 4 + r.intn(14) {
		switch {
		case holding && r.chance(2, 3):
			sc.Actions = append(sc.Actions, hoAction{Op: "back", Pick: r.intn(4)})
			holding = false
		case !holding && r.chance(1, 3):
			sc.Actions = append(sc.Actions, hoAction{Op: "recv"})
			holding = true // if nothing is there the driver skips the action and the following back
		default:
			var b []hoEvent

			for range r.intn(4) {
				switch r.intn(8) {
				case 0, 1:
					b = append(b, hoEvent{Kind: "noop"})
				default:
					b = append(b, hoEvent{Kind: "change", ID: pick(r, hoIDs), Tear: r.chance(1, 3), Fin: r.chance(1, 3)})
				}
			}

			if r.chance(1, 40) {
				b = append(b, hoEvent{Kind: "errored"})
			}

			sc.Actions = append(sc.Actions, hoAction{Op: "push", Batch: b})
		}
	}

	return sc
}

type hoResult struct {
	coq      string
	problems []string
}

func newHoRuntime(t *testing.T) *cruntime.Runtime {
	st := state.WrapCore(namespaced.NewState(inmem.Build))

	rt, err := cruntime.NewRuntime(st, zap.NewNop())
	if err != nil {
		t.Fatal(err)
	}

	return rt
}

// runHandoffA drives the real goroutine A.
func runHandoffA(t *testing.T, sc hoScenario) (res hoResult) {
	synctest.Test(t, func(t *testing.T) {
		rt := newHoRuntime(t)

		ctx, cancel := context.WithCancel(context.Background())
		defer cancel()

		rt.VerifSetRunCtx(ctx)

		ch := make(chan cruntime.VerifDedup, 1)
		empty := make(chan cruntime.VerifDedup, 1)
		empty <- cruntime.VerifDedup{}

		done := make(chan struct{})

		go func() {
			defer close(done)

			rt.VerifDeduplicateWatchEvents(ch, empty)
		}()

		synctest.Wait()

		var (
			obs  []string
			held cruntime.VerifDedup
		)

		shape := func() string { return fmt.Sprintf("%d %d %d", len(rt.VerifWatchCh()), len(ch), len(empty)) }

		monitor := func(after string) {
			// nobody receives from `empty` except goroutine A when the next batch arrives: keys parked there wait for an
			// unrelated event
			if len(empty) == 1 {
				m := <-empty
				if len(m) > 0 {
					res.problems = append(res.problems, fmt.Sprintf("lost-wakeup: after %s the map with %d pending key(s) %s is parked on the empty channel while goroutine B waits on ch", after, len(m), coqDedup(m)))
				}

				empty <- m
			}
		}

		for i, a := range sc.Actions {
			switch a.Op {
			case "push":
				if len(rt.VerifWatchCh()) == cap(rt.VerifWatchCh()) {
					continue
				}

				evs := make([]state.Event, len(a.Batch))
				items := make([]string, len(a.Batch))

				for j, e := range a.Batch {
					evs[j] = e.event()
					items[j] = e.coq()
				}

				rt.VerifWatchCh() <- evs

				synctest.Wait()

				obs = append(obs, fmt.Sprintf("OPush %s %s", coqList(items), shape()))
			case "recv":
				if held != nil || len(ch) == 0 {
					continue
				}

				held = <-ch

				synctest.Wait()

				if len(held) == 0 {
					res.problems = append(res.problems, fmt.Sprintf("empty-map-on-ch: action %d: goroutine B would call takeOne on an empty map (panic)", i))
				}

				obs = append(obs, fmt.Sprintf("ORecv %s %s", coqDedup(held), shape()))
			case "back":
				if held == nil || len(held) == 0 {
					continue
				}

				keys := make([]string, 0, len(held))
				for k := range held {
					keys = append(keys, k.ID)
				}

				sort.Strings(keys)

				id := keys[a.Pick%len(keys)]
				delete(held, cruntime.VerifReducedKey{Namespace: "n1", Typ: "T", ID: id})

				if len(held) > 0 {
					ch <- held
				} else {
					empty <- held
				}

				held = nil

				synctest.Wait()

				obs = append(obs, fmt.Sprintf("OBack %s %s", coqN(hoKeyAtom(id)), shape()))
			}

			monitor(fmt.Sprintf("action %d (%s)", i, a.Op))
		}

		select {
		case <-done:
			obs = append(obs, "ODone true")
		default:
			obs = append(obs, "ODone false")
		}

		select {
		case <-rt.VerifWatchErrors():
		default:
		}

		cancel()
		synctest.Wait()

		res.coq = "HScript " + coqList(obs)
	})

	return res
}

// runHandoffB drives the real goroutine B with one map until it blocks.
func runHandoffB(t *testing.T, ids []string) (res hoResult) {
	synctest.Test(t, func(t *testing.T) {
		rt := newHoRuntime(t)

		ctx, cancel := context.WithCancel(context.Background())
		defer cancel()

		rt.VerifSetRunCtx(ctx)

		ch := make(chan cruntime.VerifDedup, 1)
		empty := make(chan cruntime.VerifDedup, 1)

		go rt.VerifDeliverDeduplicatedEvents(ch, empty)

		sent := cruntime.VerifDedup{}

		for i, id := range ids {
			r := newRes("n1", "T", id, "x")
			if i%2 == 1 {
				r.Metadata().SetPhase(resource.PhaseTearingDown)
			}

			md := cruntime.VerifNewReducedMetadata(r.Metadata())
			sent[md.Key] = md.Value
		}

		sentCoq := coqDedup(sent)

		ch <- sent

		synctest.Wait()

		// B receives its own map back from ch until no key is left; then the map must be parked on empty
		left := -1

		switch {
		case len(empty) == 1:
			m := <-empty
			left = len(m)
		case len(ch) == 1:
			res.problems = append(res.problems, "stuck: goroutine B blocked although a map with keys waits on ch")
		default:
			res.problems = append(res.problems, "map-lost: goroutine B received the map and sent it back on neither channel")
		}

		if left > 0 {
			res.problems = append(res.problems, fmt.Sprintf("lost-wakeup: goroutine B parked the map with %d pending key(s) on the empty channel", left))
		}

		res.coq = fmt.Sprintf("HB (BDrain %s %d %d %d)", sentCoq, len(ch), map[bool]int{true: 1, false: 0}[left >= 0], max(left, 0))

		cancel()
		synctest.Wait()
	})

	return res
}

func c05HandoffPhase(t *testing.T, dir string, rep *Report, r *rng) {
	hf := newCoqFile("C05_handoff_cases", []string{"Handoff", "HandoffCheck"}, "hcase", "handoff_mismatches")

	var hj []any

	scs := []hoScenario{
		// corpus: B sends back a map with keys, the next batch adds nothing (Noop only): the map must go to ch again
		{Actions: []hoAction{
			{Op: "push", Batch: []hoEvent{{Kind: "change", ID: "a"}, {Kind: "change", ID: "b"}}},
			{Op: "recv"}, {Op: "back", Pick: 0},
			{Op: "push", Batch: []hoEvent{{Kind: "noop"}}},
			{Op: "push", Batch: nil},
			{Op: "recv"}, {Op: "back", Pick: 0},
			{Op: "push", Batch: []hoEvent{{Kind: "noop"}}},
		}},
		// A takes the map back from ch before B received it
		{Actions: []hoAction{
			{Op: "push", Batch: []hoEvent{{Kind: "change", ID: "a"}}},
			{Op: "push", Batch: []hoEvent{{Kind: "change", ID: "a", Tear: true}, {Kind: "change", ID: "c"}}},
			{Op: "push", Batch: []hoEvent{{Kind: "noop"}}},
			{Op: "recv"}, {Op: "back", Pick: 1}, {Op: "recv"}, {Op: "back", Pick: 0},
		}},
		// failure of the watch
		{Actions: []hoAction{
			{Op: "push", Batch: []hoEvent{{Kind: "change", ID: "a"}, {Kind: "errored"}, {Kind: "change", ID: "b"}}},
			{Op: "push", Batch: []hoEvent{{Kind: "change", ID: "c"}}},
		}},
	}

	for range tier(120, 3000) {
		scs = append(scs, genHoScenario(r))
	}

	for i, sc := range scs {
		res := runHandoffA(t, sc)

		for _, p := range res.problems {
			rep.violateKey(len(hj), "handoff:"+p[:min(len(p), 12)], p, map[string]any{"handoff": sc})
		}

		if res.coq == "" {
			continue
		}

		hf.add(res.coq)
		hj = append(hj, map[string]any{"handoff": sc})
		rep.count(fmt.Sprintf("ho:%d:%s", i, res.coq), len(sc.Actions) > 3)
		rep.hit("handoff-A-script")
	}

	for _, ids := range [][]string{{"a"}, {"a", "b"}, {"a", "b", "c"}, {"b", "d"}, {"a", "b", "c", "d"}} {
		for range tier(2, 10) {
			res := runHandoffB(t, ids)

			for _, p := range res.problems {
				rep.violateKey(len(hj), "handoff:"+p[:min(len(p), 12)], p, map[string]any{"handoff_b": ids})
			}

			if res.coq == "" {
				continue
			}

			hf.add(res.coq)
			hj = append(hj, map[string]any{"handoff_b": ids})
			rep.count("hob:"+res.coq, true)
			rep.hit("handoff-B-delivery")
		}
	}

	hf.finishSharded(t, dir, rep, hj, 400)
}
