package harness

import (
	"context"
	"encoding/json"
	"errors"
	"fmt"
	"github.com/cosi-project/runtime/pkg/safe"
	"github.com/siderolabs/gen/xerrors"
	"os"
	"sort"
	"strconv"
	"strings"
	"sync"
	"testing"
	"testing/synctest"
	"time"

	"github.com/siderolabs/gen/optional"
	"go.uber.org/zap"

	"github.com/cosi-project/runtime/pkg/controller"
	"github.com/cosi-project/runtime/pkg/controller/generic/cleanup"
	"github.com/cosi-project/runtime/pkg/controller/generic/destroy"
	"github.com/cosi-project/runtime/pkg/controller/generic/qtransform"
	"github.com/cosi-project/runtime/pkg/controller/generic/transform"
	cruntime "github.com/cosi-project/runtime/pkg/controller/runtime"
	"github.com/cosi-project/runtime/pkg/controller/runtime/options"
	"github.com/cosi-project/runtime/pkg/resource"
	"github.com/cosi-project/runtime/pkg/resource/meta"
	"github.com/cosi-project/runtime/pkg/state"
	"github.com/cosi-project/runtime/pkg/state/impl/inmem"
	"github.com/cosi-project/runtime/pkg/state/impl/namespaced"
)

// ---- typed resources for the generic controllers ---------------------------------------------------

type InRes struct{ Res }

func newIn(id, payload string) *InRes { return &InRes{Res: *newRes("n1", "T", id, payload)} }

func (r *InRes) DeepCopy() resource.Resource { return &InRes{Res: Res{md: r.md, spec: r.spec}} } //nolint:ireturn

func (*InRes) ResourceDefinition() meta.ResourceDefinitionSpec {
	return meta.ResourceDefinitionSpec{Type: "T", DefaultNamespace: "n1"}
}

type OutRes struct{ Res }

func newOut(id, payload string) *OutRes { return &OutRes{Res: *newRes("n1", "O", id, payload)} }

func (r *OutRes) DeepCopy() resource.Resource { return &OutRes{Res: Res{md: r.md, spec: r.spec}} } //nolint:ireturn

func (*OutRes) ResourceDefinition() meta.ResourceDefinitionSpec {
	return meta.ResourceDefinitionSpec{Type: "O", DefaultNamespace: "n1"}
}

type Out2Res struct{ Res }

func newOut2(id, payload string) *Out2Res { return &Out2Res{Res: *newRes("n1", "O2", id, payload)} }

func (r *Out2Res) DeepCopy() resource.Resource { return &Out2Res{Res: Res{md: r.md, spec: r.spec}} } //nolint:ireturn

func (*Out2Res) ResourceDefinition() meta.ResourceDefinitionSpec {
	return meta.ResourceDefinitionSpec{Type: "O2", DefaultNamespace: "n1"}
}

// OutTRes: an output of the SAME resource type as the input, living in another namespace.
type OutTRes struct{ Res }

func newOutT(id, payload string) *OutTRes { return &OutTRes{Res: *newRes("n2", "T", id, payload)} }

func (r *OutTRes) DeepCopy() resource.Resource { return &OutTRes{Res: Res{md: r.md, spec: r.spec}} } //nolint:ireturn

func (*OutTRes) ResourceDefinition() meta.ResourceDefinitionSpec {
	return meta.ResourceDefinitionSpec{Type: "T", DefaultNamespace: "n2"}
}

// runSameTypeTransform: a transform controller whose outputs have the input's type in another namespace. An output
// held by a foreign finalizer while its input is torn down must be cleaned up once that finalizer goes away - the
// controller has to be watching its own output kind for that, whatever the kind's type is.
func runSameTypeTransform(t *testing.T) (problems []string) {
	synctest.Test(t, func(t *testing.T) {
		ctx, cancel := context.WithCancel(context.Background())
		defer cancel()

		st := state.WrapCore(namespaced.NewState(inmem.Build))

		rt, err := cruntime.NewRuntime(st, zap.NewNop())
		if err != nil {
			t.Fatal(err)
		}

		if err := rt.RegisterController(transform.NewController(transform.Settings[*InRes, *OutTRes]{
			Name:            tcName,
			MapMetadataFunc: func(in *InRes) *OutTRes { return newOutT(in.Metadata().ID(), "") },
			TransformFunc: func(_ context.Context, _ controller.Reader, _ *zap.Logger, in *InRes, o *OutTRes) error {
				o.SetPayload("t:" + in.Payload())

				return nil
			},
			FinalizerRemovalFunc: func(context.Context, controller.Reader, *zap.Logger, *InRes) error { return nil },
		}, transform.WithInputFinalizers())); err != nil {
			t.Fatal(err)
		}

		done := make(chan error, 1)

		go func() { done <- rt.Run(ctx) }()

		quiesce := func() {
			time.Sleep(20 * time.Minute)
			synctest.Wait()
		}

		inPtr := resource.NewMetadata("n1", "T", "a", resource.VersionUndefined)
		outPtr := resource.NewMetadata("n2", "T", "a", resource.VersionUndefined)

		if err := st.Create(ctx, newIn("a", "p1")); err != nil {
			t.Fatal(err)
		}

		quiesce()

		if o, err := st.Get(ctx, outPtr); err != nil || payloadOf(o) != "t:p1" {
			problems = append(problems, fmt.Sprintf("missing-output: same-type transform: input n1/T/a has no output n2/T/a at quiescence (%v)", err))
		} else {
			if err := st.AddFinalizer(ctx, outPtr, "ofin"); err != nil {
				t.Fatal(err)
			}

			if _, err := st.Teardown(ctx, inPtr); err != nil {
				t.Fatal(err)
			}

			quiesce() // the controller has marked the output and waits for the foreign finalizer

			if err := st.RemoveFinalizer(ctx, outPtr, "ofin"); err != nil {
				t.Fatal(err)
			}

			quiesce()

			if o, err := st.Get(ctx, outPtr); err == nil {
				problems = append(problems, fmt.Sprintf("orphaned-output: same-type transform: output n2/T/a (phase %s, finalizers %v) is still there at quiescence although its input is torn down and no foreign finalizer holds it",
					o.Metadata().Phase(), *o.Metadata().Finalizers()))
			}

			if in, err := st.Get(ctx, inPtr); err == nil && in.Metadata().Finalizers().Has(tcName) {
				problems = append(problems, "finalizer-kept: same-type transform: the torn-down input still carries the controller's finalizer at quiescence")
			}
		}

		cancel()
		<-done
		synctest.Wait()
	})

	return problems
}

// ---- recording state: the totally ordered log of committed writes ---------------------------------------

type wEntry struct {
	Op    string // create | update | destroy
	Typ   string
	ID    string
	Actor string // "env" or "ctrl"
	// state after the write (nil for destroy) and before it
	After, Before resource.Resource
}

type recState struct {
	state.State
	mu  sync.Mutex
	log []wEntry
}

type envKey struct{}

func envCtx(ctx context.Context) context.Context { return context.WithValue(ctx, envKey{}, true) }

func actorOf(ctx context.Context) string {
	if ctx.Value(envKey{}) != nil {
		return "env"
	}

	return "ctrl"
}

// the helper methods of state.State must go through our Create/Update/Destroy: re-wrap the core
func newRecState(core state.CoreState) *recState {
	rs := &recState{}
	rs.State = state.WrapCore(&recCore{CoreState: core, rs: rs})

	return rs
}

// recCore records at the CoreState level (helpers of WrapCore call these).
type recCore struct {
	state.CoreState
	rs *recState
}

// The write and its log entry are one critical section: the log is the commit order, also when the environment, the
// controllers' workers and a second controller write concurrently (a log appended after the fact can show a destroy
// after the re-creation that followed it).
func (c *recCore) Create(ctx context.Context, r resource.Resource, opts ...state.CreateOption) error {
	c.rs.mu.Lock()
	defer c.rs.mu.Unlock()

	if err := c.CoreState.Create(ctx, r, opts...); err != nil {
		return err
	}

	c.rs.log = append(c.rs.log, wEntry{Op: "create", Typ: r.Metadata().Type(), ID: r.Metadata().ID(), Actor: actorOf(ctx), After: r.DeepCopy()})

	return nil
}

func (c *recCore) Update(ctx context.Context, r resource.Resource, opts ...state.UpdateOption) error {
	c.rs.mu.Lock()
	defer c.rs.mu.Unlock()

	before, _ := c.CoreState.Get(ctx, r.Metadata()) //nolint:errcheck

	if err := c.CoreState.Update(ctx, r, opts...); err != nil {
		return err
	}

	c.rs.log = append(c.rs.log, wEntry{Op: "update", Typ: r.Metadata().Type(), ID: r.Metadata().ID(), Actor: actorOf(ctx), After: r.DeepCopy(), Before: before})

	return nil
}

func (c *recCore) Destroy(ctx context.Context, p resource.Pointer, opts ...state.DestroyOption) error {
	c.rs.mu.Lock()
	defer c.rs.mu.Unlock()

	before, _ := c.CoreState.Get(ctx, p) //nolint:errcheck

	if err := c.CoreState.Destroy(ctx, p, opts...); err != nil {
		return err
	}

	c.rs.log = append(c.rs.log, wEntry{Op: "destroy", Typ: p.Type(), ID: p.ID(), Actor: actorOf(ctx), Before: before})

	return nil
}

// ---- scenario ------------------------------------------------------------------------------------------------

type gEnv struct {
	Op  string `json:"op"` // create | touch | teardown | destroy | addfin | remfin | outaddfin | outremfin | sleep | quiesce | faults | foreignout | foreigngone
	ID  string `json:"id,omitempty"`
	Fin string `json:"fin,omitempty"`
	D   int64  `json:"d,omitempty"`
	N   int    `json:"n,omitempty"` // faults: the next N transform calls fail
}

type gScenario struct {
	Config   string `json:"config"`            // transform | transform-ignoretd | qtransform | qtransform-until | qtransform-while | cleanup
	Destroy  bool   `json:"destroy,omitempty"` // also run destroy.Controller on the inputs (destroys torn-down, finalizer-free inputs)
	CacheOut bool   `json:"cache_out,omitempty"`
	Conc     int    `json:"conc,omitempty"`
	BusyNS   int64  `json:"busy,omitempty"` // virtual duration of each transform
	Steps    []gEnv `json:"steps"`
}

type gOutcome struct {
	c06 []string
	c07 []string
	fl  map[string]bool
}

const (
	tcName = "tc"
	extFin = "ext"
)

func ctrlName(cfg string) string {
	if strings.HasPrefix(cfg, "cleanup") {
		return "cl"
	}

	return tcName
}

func runGenericScenario(t *testing.T, sc gScenario) (out gOutcome) {
	out.fl = map[string]bool{}

	synctest.Test(t, func(t *testing.T) {
		ctx, cancel := context.WithCancel(context.Background())
		defer cancel()

		rs := newRecState(namespaced.NewState(inmem.Build))

		var (
			faultMu sync.Mutex
			faults  int
		)

		transformFn := func(ctx context.Context, _ controller.Reader, _ *zap.Logger, in *InRes, o *OutRes) error {
			if sc.BusyNS > 0 {
				select {
				case <-ctx.Done():
					return ctx.Err()
				case <-time.After(time.Duration(sc.BusyNS)):
				}
			}

			faultMu.Lock()
			fail := faults > 0
			if fail {
				faults--
			}
			faultMu.Unlock()

			if fail {
				return errors.New("transient transform failure")
			}

			o.SetPayload("t:" + in.Payload())

			return nil
		}

		mapFn := func(in *InRes) *OutRes { return newOut(in.Metadata().ID(), "") }

		var opts []options.Option
		if sc.CacheOut {
			opts = append(opts, options.WithCachedResource("n1", "O"))
		}

		rt, err := cruntime.NewRuntime(rs, zap.NewNop(), opts...)
		if err != nil {
			t.Fatal(err)
		}

		switch sc.Config {
		case "transform", "transform-ignoretd":
			topts := []transform.ControllerOption{transform.WithInputFinalizers()}
			if sc.Config == "transform-ignoretd" {
				topts = []transform.ControllerOption{transform.WithIgnoreTearingDownInputs()}
			}

			err = rt.RegisterController(transform.NewController(transform.Settings[*InRes, *OutRes]{
				Name:            tcName,
				MapMetadataFunc: mapFn,
				TransformFunc:   transformFn,
				FinalizerRemovalFunc: func(context.Context, controller.Reader, *zap.Logger, *InRes) error {
					return nil
				},
			}, topts...))
		case "transform-extra":
			// the transform also maintains a second, shared output O2/q<id> through its writer; a conflict on THAT type is
			// an error of the transform (retried by restarting the controller), not a phase conflict of the primary output
			err = rt.RegisterController(transform.NewController(transform.Settings[*InRes, *OutRes]{
				Name:            tcName,
				MapMetadataFunc: mapFn,
				TransformExtraOutputFunc: func(ctx context.Context, rw controller.ReaderWriter, l *zap.Logger, in *InRes, o *OutRes) error {
					if err := safe.WriterModify(ctx, rw, newOut2("q"+in.Metadata().ID(), ""), func(x *Out2Res) error {
						x.SetPayload("x:" + in.Payload())

						return nil
					}); err != nil {
						return err
					}

					return transformFn(ctx, rw, l, in, o)
				},
				FinalizerRemovalExtraOutputFunc: func(ctx context.Context, rw controller.ReaderWriter, _ *zap.Logger, in *InRes) error {
					// the extra output goes with the input
					ptr := resource.NewMetadata("n1", "O2", "q"+in.Metadata().ID(), resource.VersionUndefined)

					ready, err := rw.Teardown(ctx, ptr)
					if err != nil {
						if state.IsNotFoundError(err) {
							return nil
						}

						return err
					}

					if !ready {
						return xerrors.NewTaggedf[transform.SkipReconcileTag]("extra output still has finalizers")
					}

					return rw.Destroy(ctx, ptr)
				},
			}, transform.WithInputFinalizers(), transform.WithExtraOutputs(controller.Output{Type: "O2", Kind: controller.OutputShared})))
		case "qtransform", "qtransform-until", "qtransform-while":
			var qopts []qtransform.ControllerOption

			if sc.Conc > 1 {
				qopts = append(qopts, qtransform.WithConcurrency(uint(sc.Conc)))
			}

			switch sc.Config {
			case "qtransform-until":
				qopts = append(qopts, qtransform.WithIgnoreTeardownUntil())
			case "qtransform-while":
				qopts = append(qopts, qtransform.WithIgnoreTeardownWhile(extFin))
			}

			err = rt.RegisterQController(qtransform.NewQController(qtransform.Settings[*InRes, *OutRes]{
				Name:              tcName,
				MapMetadataFunc:   mapFn,
				UnmapMetadataFunc: func(o *OutRes) *InRes { return newIn(o.Metadata().ID(), "") },
				TransformFunc:     transformFn,
			}, qopts...))
		case "cleanup":
			err = rt.RegisterController(cleanup.NewController(cleanup.Settings[*InRes]{
				Name: "cl",
				Handler: cleanup.RemoveOutputs[*OutRes](func(in *InRes) state.ListOption {
					return state.WithLabelQuery(resource.LabelEqual("in", in.Metadata().ID()))
				}),
			}))
		case "cleanup-combine":
			sel := func(in *InRes) state.ListOption {
				return state.WithLabelQuery(resource.LabelEqual("in", in.Metadata().ID()))
			}

			err = rt.RegisterController(cleanup.NewController(cleanup.Settings[*InRes]{
				Name:    "cl",
				Handler: cleanup.Combine(cleanup.HasNoOutputs[*OutRes](sel), cleanup.HasNoOutputs[*Out2Res](sel)),
			}))
		case "cleanup-hasno":
			err = rt.RegisterController(cleanup.NewController(cleanup.Settings[*InRes]{
				Name: "cl",
				Handler: cleanup.HasNoOutputs[*OutRes](func(in *InRes) state.ListOption {
					return state.WithLabelQuery(resource.LabelEqual("in", in.Metadata().ID()))
				}),
			}))
		default:
			t.Fatalf("bad config %q", sc.Config)
		}

		if err != nil {
			t.Fatal(err)
		}

		if sc.Destroy {
			if err := rt.RegisterQController(destroy.NewController[*InRes](optional.Some(uint(1)))); err != nil {
				t.Fatal(err)
			}
		}

		done := make(chan error, 1)

		go func() { done <- rt.Run(ctx) }()

		synctest.Wait()

		ectx := envCtx(ctx)
		nextPayload := 0

		get := func(typ, id string) resource.Resource {
			r, err := rs.Get(ectx, resource.NewMetadata("n1", typ, id, resource.VersionUndefined))
			if err != nil {
				return nil
			}

			return r
		}

		name := ctrlName(sc.Config)
		quiesced := 0

		quiesce := func() {
			time.Sleep(20 * time.Minute)
			synctest.Wait()

			quiesced++

			out.c06 = append(out.c06, checkConverged(ectx, rs, sc, name)...)
		}

		for _, e := range sc.Steps {
			switch e.Op {
			case "sleep":
				time.Sleep(time.Duration(e.D))
			case "quiesce":
				quiesce()
			case "faults":
				faultMu.Lock()
				faults = e.N
				faultMu.Unlock()
				out.fl["transient_faults"] = true
			case "create":
				nextPayload++

				if strings.HasPrefix(sc.Config, "cleanup") && (strings.HasPrefix(e.ID, "o") || strings.HasPrefix(e.ID, "q")) {
					// the property's standing assumption (C07_cleanup_release_only_without_dependents): nobody creates a new
					// dependent of an input that is already tearing down - a handler that has just found none would be
					// overtaken by the creation and the monitor would blame the controller for the environment's move
					if in := get("T", e.Fin); in != nil && in.Metadata().Phase() == resource.PhaseTearingDown {
						out.fl["dependent_creation_skipped_input_tearing_down"] = true

						continue
					}
				}

				if strings.HasPrefix(sc.Config, "cleanup") && strings.HasPrefix(e.ID, "o") {
					// a dependent output of input e.Fin (reused as the input id), owned by nobody
					o := newOut(e.ID, "dep")
					o.Metadata().Labels().Set("in", e.Fin)
					rs.Create(ectx, o) //nolint:errcheck

					continue
				}

				if strings.HasPrefix(sc.Config, "cleanup") && strings.HasPrefix(e.ID, "q") {
					o := newOut2(e.ID, "dep")
					o.Metadata().Labels().Set("in", e.Fin)
					rs.Create(ectx, o) //nolint:errcheck

					continue
				}

				if rs.Create(ectx, newIn(e.ID, fmt.Sprintf("p%d", nextPayload))) == nil && get("O", e.ID) != nil {
					out.fl["recreate_while_output_exists"] = true
				}
			case "foreignout":
				// somebody else's leftover where the transform wants to write its extra output
				rs.Create(ectx, newOut2("q"+e.ID, "foreign"), state.WithCreateOwner("foreign")) //nolint:errcheck
				out.fl["foreign_extra_output"] = true
			case "foreigngone":
				rs.Destroy(ectx, resource.NewMetadata("n1", "O2", "q"+e.ID, resource.VersionUndefined), state.WithDestroyOwner("foreign")) //nolint:errcheck
			case "depdestroy":
				typ := "O"
				if strings.HasPrefix(e.ID, "q") {
					typ = "O2"
				}

				if rs.Destroy(ectx, resource.NewMetadata("n1", typ, e.ID, resource.VersionUndefined)) == nil {
					out.fl["dependent_destroyed"] = true
				}
			case "touch":
				if r := get("T", e.ID); r != nil {
					nextPayload++
					r.(*InRes).SetPayload(fmt.Sprintf("p%d", nextPayload))                                        //nolint:forcetypeassert
					rs.Update(ectx, r, state.WithExpectedPhaseAny(), state.WithUpdateOwner(r.Metadata().Owner())) //nolint:errcheck
				}
			case "teardown":
				if _, err := rs.Teardown(ectx, resource.NewMetadata("n1", "T", e.ID, resource.VersionUndefined)); err == nil {
					out.fl["input_teardown"] = true
				}
			case "destroy":
				if rs.Destroy(ectx, resource.NewMetadata("n1", "T", e.ID, resource.VersionUndefined)) == nil {
					out.fl["input_destroyed"] = true
				}
			case "addfin", "remfin":
				if r := get("T", e.ID); r != nil {
					if e.Op == "addfin" {
						rs.AddFinalizer(ectx, r.Metadata(), e.Fin) //nolint:errcheck
					} else {
						rs.RemoveFinalizer(ectx, r.Metadata(), e.Fin) //nolint:errcheck
					}

					out.fl["foreign_input_finalizer"] = true
				}
			case "outaddfin", "outremfin":
				if r := get("O", e.ID); r != nil {
					if e.Op == "outaddfin" {
						rs.AddFinalizer(ectx, r.Metadata(), e.Fin) //nolint:errcheck
					} else {
						rs.RemoveFinalizer(ectx, r.Metadata(), e.Fin) //nolint:errcheck
					}

					out.fl["foreign_output_finalizer"] = true
				}
			}
		}

		quiesce()

		rs.mu.Lock()
		log := append([]wEntry(nil), rs.log...)
		rs.mu.Unlock()

		out.c07 = append(out.c07, checkOrdering(log, sc, name)...)

		cancel()
		<-done
		synctest.Wait()
	})

	return out
}

// checkConverged is the C06 oracle at quiescence.
func checkConverged(ctx context.Context, st state.State, sc gScenario, name string) (problems []string) {
	if strings.HasPrefix(sc.Config, "cleanup") {
		return nil
	}

	ins, err := st.List(ctx, resource.NewMetadata("n1", "T", "", resource.VersionUndefined))
	if err != nil {
		return []string{"list-error: " + err.Error()}
	}

	outs, err := st.List(ctx, resource.NewMetadata("n1", "O", "", resource.VersionUndefined))
	if err != nil {
		return []string{"list-error: " + err.Error()}
	}

	inByID := map[string]resource.Resource{}
	for _, r := range ins.Items {
		inByID[r.Metadata().ID()] = r
	}

	outByID := map[string]resource.Resource{}
	for _, r := range outs.Items {
		outByID[r.Metadata().ID()] = r
	}

	// which inputs must have an image
	mapped := func(in resource.Resource) bool {
		if in.Metadata().Phase() == resource.PhaseRunning {
			return true
		}

		switch sc.Config {
		case "transform-ignoretd":
			return true
		case "qtransform-until":
			// teardown ignored until only the controller's own finalizer is left
			for _, f := range *in.Metadata().Finalizers() {
				if f != name {
					return true
				}
			}
		case "qtransform-while":
			return in.Metadata().Finalizers().Has(extFin)
		}

		return false
	}

	for id, in := range inByID {
		o, ok := outByID[id]

		switch {
		case mapped(in) && (!ok || o.Metadata().Owner() != name):
			// an output still being torn down (held by a foreign finalizer) legitimately delays the new image
			if ok && o.Metadata().Phase() == resource.PhaseTearingDown && !o.Metadata().Finalizers().Empty() {
				continue
			}

			problems = append(problems, fmt.Sprintf("missing-output: input %s (%s, finalizers %v) has no output owned by %q at quiescence", id, in.Metadata().Phase(), *in.Metadata().Finalizers(), name))
		case mapped(in) && ok:
			if o.Metadata().Phase() == resource.PhaseTearingDown {
				if !o.Metadata().Finalizers().Empty() {
					continue
				}

				problems = append(problems, fmt.Sprintf("stale-output: output %s is tearing down without finalizers at quiescence while its input is mapped", id))

				continue
			}

			if want := "t:" + payloadOf(in); payloadOf(o) != want {
				problems = append(problems, fmt.Sprintf("stale-output: output %s has content %q, latest transformed content is %q", id, payloadOf(o), want))
			}
		case !mapped(in) && !ok:
			if in.Metadata().Finalizers().Has(name) {
				problems = append(problems, fmt.Sprintf("finalizer-not-released: torn-down input %s still carries finalizer %q although its output is gone", id, name))
			}
		}
	}

	for id, o := range outByID {
		if o.Metadata().Owner() != name {
			continue
		}

		in, ok := inByID[id]
		if ok && mapped(in) {
			continue
		}

		if o.Metadata().Phase() == resource.PhaseTearingDown && !o.Metadata().Finalizers().Empty() {
			continue // still held by a foreign finalizer
		}

		if !ok {
			problems = append(problems, fmt.Sprintf("orphaned-output: output %s owned by %q exists at quiescence but its input does not", id, name))
		} else {
			problems = append(problems, fmt.Sprintf("stale-output: output %s exists at quiescence although its input is torn down (finalizers %v)", id, *in.Metadata().Finalizers()))
		}
	}

	return problems
}

// checkOrdering is the C07 monitor over the totally ordered log of committed writes.
func checkOrdering(log []wEntry, sc gScenario, name string) (problems []string) {
	type shadowT map[string]resource.Resource

	ins, outs := shadowT{}, shadowT{}
	finalizersInUse := sc.Config != "transform-ignoretd"

	for i, e := range log {
		sh := ins
		key := e.ID

		if e.Typ != "T" {
			sh = outs

			if e.Typ != "O" {
				key = e.Typ + "/" + e.ID
			}
		}

		// pre-state checks
		if e.Op == "destroy" && e.Typ == "O" && e.Actor == "ctrl" && e.Before != nil {
			if e.Before.Metadata().Phase() != resource.PhaseTearingDown {
				problems = append(problems, fmt.Sprintf("destroy-before-teardown: write #%d destroys output %s which was never marked tearing down", i, e.ID))
			}

			if !e.Before.Metadata().Finalizers().Empty() {
				problems = append(problems, fmt.Sprintf("destroy-with-finalizers: write #%d destroys output %s holding finalizers %v", i, e.ID, *e.Before.Metadata().Finalizers()))
			}
		}

		if e.Op == "update" && e.Typ == "T" && e.Actor == "ctrl" && e.Before != nil && e.Before.Metadata().Finalizers().Has(name) && !e.After.Metadata().Finalizers().Has(name) {
			// the controller releases its finalizer
			if strings.HasPrefix(sc.Config, "cleanup") {
				for id, o := range outs {
					if strings.HasPrefix(id, "O2/") && sc.Config != "cleanup-combine" {
						continue // only the combined handler looks at the second dependent kind
					}

					if v, _ := o.Metadata().Labels().Get("in"); v == e.ID && (sc.Config != "cleanup" || o.Metadata().Owner() == "") {
						problems = append(problems, fmt.Sprintf("released-before-handler: write #%d removes the cleanup finalizer from input %s while dependent output %s still exists", i, e.ID, id))
					}
				}
			} else if o, ok := outs[e.ID]; ok && o.Metadata().Owner() == name {
				problems = append(problems, fmt.Sprintf("finalizer-removed-before-output-destroyed: write #%d removes finalizer %q from input %s while output %s still exists", i, name, e.ID, e.ID))
			}
		}

		switch e.Op {
		case "create", "update":
			sh[key] = e.After
		case "destroy":
			delete(sh, key)
		}

		// invariant on every prefix: an owned output implies its input exists and carries the finalizer
		if finalizersInUse && !strings.HasPrefix(sc.Config, "cleanup") {
			for id, o := range outs {
				if o.Metadata().Owner() != name {
					continue
				}

				// the extra output of input x is O2/qx
				inID := strings.TrimPrefix(id, "O2/q")

				in, ok := ins[inID]
				if !ok {
					problems = append(problems, fmt.Sprintf("input-gone-before-output: after write #%d (%s %s/%s by %s) output %s exists but its input does not", i, e.Op, e.Typ, e.ID, e.Actor, id))

					break
				}

				if !in.Metadata().Finalizers().Has(name) {
					problems = append(problems, fmt.Sprintf("output-without-input-finalizer: after write #%d (%s %s/%s by %s) output %s exists but input %s does not carry finalizer %q (phase %s, finalizers %v)",
						i, e.Op, e.Typ, e.ID, e.Actor, id, id, name, in.Metadata().Phase(), *in.Metadata().Finalizers()))

					break
				}
			}
		}

		if len(problems) > 0 && os.Getenv("VERIF_DUMPLOG") != "" {
			for j, x := range log[:i+1] {
				fins, ph, ow := "", "", ""
				if x.After != nil {
					fins, ph, ow = fmt.Sprint(*x.After.Metadata().Finalizers()), x.After.Metadata().Phase().String(), x.After.Metadata().Owner()
				}

				fmt.Fprintf(os.Stderr, "LOG %d %s %s/%s by %s -> phase=%s fins=%s owner=%s\n", j, x.Op, x.Typ, x.ID, x.Actor, ph, fins, ow)
			}

			return problems
		}

		if len(problems) > 3 {
			break
		}
	}

	return problems
}

// ---- generation -------------------------------------------------------------------------------------------------

func genGenericScenario(r *rng) gScenario {
	sc := gScenario{
		Config:  pick(r, []string{"transform", "transform", "qtransform", "qtransform", "transform-ignoretd", "qtransform-until", "qtransform-while", "cleanup", "cleanup-hasno", "cleanup-combine"}),
		Destroy: r.chance(1, 2),
		BusyNS:  pick(r, []int64{0, 0, 1e6, 200e6}),
		Conc:    pick(r, []int{1, 1, 2}),
	}

	ids := []string{"a", "b"}
	n := 6 + r.intn(25)

	for len(sc.Steps) < n {
		id := pick(r, ids)

		switch x := r.intn(100); {
		case x < 22:
			sc.Steps = append(sc.Steps, gEnv{Op: "create", ID: id})
		case x < 37:
			sc.Steps = append(sc.Steps, gEnv{Op: "touch", ID: id})
		case x < 50:
			sc.Steps = append(sc.Steps, gEnv{Op: "teardown", ID: id})
		case x < 58:
			sc.Steps = append(sc.Steps, gEnv{Op: "destroy", ID: id})
		case x < 66:
			sc.Steps = append(sc.Steps, gEnv{Op: pick(r, []string{"addfin", "remfin"}), ID: id, Fin: extFin})
		case x < 76:
			sc.Steps = append(sc.Steps, gEnv{Op: pick(r, []string{"outaddfin", "outremfin"}), ID: id, Fin: "ofin"})
		case x < 88:
			sc.Steps = append(sc.Steps, gEnv{Op: "sleep", D: pick(r, []int64{1e6, 50e6, 300e6, 2e9})})
		case x < 94:
			sc.Steps = append(sc.Steps, gEnv{Op: "quiesce"})
		default:
			sc.Steps = append(sc.Steps, gEnv{Op: "faults", N: 1 + r.intn(3)})
		}

		// lifecycle bursts: teardown, destroy and immediate re-creation; first sight of an input that is already tearing down
		switch y := r.intn(40); {
		case y == 0:
			sc.Steps = append(sc.Steps, gEnv{Op: "teardown", ID: id}, gEnv{Op: "sleep", D: 50e6}, gEnv{Op: "destroy", ID: id}, gEnv{Op: "create", ID: id})
		case y == 1:
			sc.Steps = append(sc.Steps, gEnv{Op: "outaddfin", ID: id, Fin: "ofin"}, gEnv{Op: "teardown", ID: id}, gEnv{Op: "sleep", D: 300e6}, gEnv{Op: "destroy", ID: id}, gEnv{Op: "create", ID: id},
				gEnv{Op: "sleep", D: 300e6}, gEnv{Op: "outremfin", ID: id, Fin: "ofin"})
		case y == 2:
			sc.Steps = append(sc.Steps, gEnv{Op: "quiesce"}, gEnv{Op: "destroy", ID: id}, gEnv{Op: "create", ID: id}, gEnv{Op: "addfin", ID: id, Fin: extFin}, gEnv{Op: "teardown", ID: id}, gEnv{Op: "quiesce"})
		}

		if strings.HasPrefix(sc.Config, "cleanup") && r.chance(1, 4) {
			sc.Steps = append(sc.Steps, gEnv{Op: "create", ID: "o" + fmt.Sprint(r.intn(3)), Fin: id})
		}

		if sc.Config == "cleanup-combine" || sc.Config == "cleanup-hasno" {
			switch z := r.intn(8); {
			case z == 0:
				sc.Steps = append(sc.Steps, gEnv{Op: "create", ID: "q" + fmt.Sprint(r.intn(3)), Fin: id})
			case z < 3:
				sc.Steps = append(sc.Steps, gEnv{Op: "depdestroy", ID: pick(r, []string{"o", "q"}) + fmt.Sprint(r.intn(3))})
			case z == 3:
				// both kinds of dependents, input torn down, dependents vanish in either order
				o, q := "o"+fmt.Sprint(r.intn(3)), "q"+fmt.Sprint(r.intn(3))
				first, second := o, q
				if r.chance(1, 2) {
					first, second = q, o
				}

				sc.Steps = append(sc.Steps, gEnv{Op: "create", ID: o, Fin: id}, gEnv{Op: "create", ID: q, Fin: id}, gEnv{Op: "quiesce"}, gEnv{Op: "teardown", ID: id},
					gEnv{Op: "depdestroy", ID: first}, gEnv{Op: "quiesce"}, gEnv{Op: "depdestroy", ID: second})
			}
		}
	}

	// make sure every foreign finalizer is eventually removed so that the system can converge
	for _, id := range ids {
		sc.Steps = append(sc.Steps, gEnv{Op: "remfin", ID: id, Fin: extFin}, gEnv{Op: "outremfin", ID: id, Fin: "ofin"})
	}

	return sc
}

// knownKey maps a violation to the stable key used in known_findings.json
func genericKey(sc gScenario, problem string) string {
	kind := strings.SplitN(problem, ":", 2)[0]

	if sc.Config == "qtransform-until" || sc.Config == "qtransform-while" {
		switch kind {
		case "output-without-input-finalizer", "input-gone-before-output", "orphaned-output":
			return "qtransform-ignore-teardown:" + kind
		}
	}

	return sc.Config + ":" + kind
}

func runGenericProperty(t *testing.T, prop string, rule string, extra func(rep *Report, dir string)) {
	dir := outDir(t)
	rep := newReport(prop, rule)

	var scs []gScenario

	if rp := os.Getenv("VERIF_REPLAY"); rp != "" {
		b, err := os.ReadFile(rp)
		if err != nil {
			t.Fatal(err)
		}

		var rf struct {
			Case          gScenario `json:"case"`
			Gated         *qgCase   `json:"gated"`
			DestroyCtl    *dgCase   `json:"destroyctl"`
			TransformList *tlCase   `json:"transformlist"`
			Cleanup       *ccCase   `json:"cleanup"`
			Transform     *qgCase   `json:"transform"`
		}

		if err := json.Unmarshal(b, &rf); err != nil {
			t.Fatal(err)
		}

		if rf.DestroyCtl != nil || rf.TransformList != nil || rf.Cleanup != nil || rf.Transform != nil {
			var (
				f            *coqFile
				coq, problem string
				body         map[string]any
			)

			switch {
			case rf.Cleanup != nil && rf.Cleanup.RO:
				f = newCoqFile("C07_cleanup_ro_cases", []string{"Store", "Helpers", "DepDB", "Access", "GenCtl", "GenCtlCheck", "Cleanup", "CleanupRO", "CleanupROCheck"}, "rocase", "cleanup_ro_mismatches")
				coq, _, problem = runGatedCleanup(t, *rf.Cleanup)
				body = map[string]any{"cleanup": rf.Cleanup}
			case rf.Cleanup != nil:
				f = newCoqFile("C07_cleanup_cases", []string{"Store", "Helpers", "DepDB", "Access", "GenCtl", "GenCtlCheck", "Cleanup", "CleanupCheck"}, "ccase", "cleanup_mismatches")
				coq, _, problem = runGatedCleanup(t, *rf.Cleanup)
				body = map[string]any{"cleanup": rf.Cleanup}
			case rf.Transform != nil:
				f = newCoqFile(prop+"_transform_cases", []string{"Store", "Helpers", "DepDB", "Access", "GenCtl", "GenCtlCheck", "Transform", "TransformCheck"}, "tcase", "transform_mismatches")
				coq, _, problem = runGatedTransform(t, *rf.Transform)
				body = map[string]any{"transform": rf.Transform}
			}

			if f != nil {
				// done above
			} else if rf.DestroyCtl != nil {
				f = newCoqFile(prop+"_destroyctl_cases", []string{"Store", "Helpers", "DepDB", "Access", "GenCtl", "GenCtlCheck", "Destroy", "DestroyCheck"}, "dcase", "destroy_mismatches")
				coq, _, problem = runGatedDestroy(t, *rf.DestroyCtl)
				body = map[string]any{"destroyctl": rf.DestroyCtl}
			} else {
				f = newCoqFile(prop+"_transformlist_cases", []string{"Store", "Helpers", "DepDB", "Access", "GenCtl", "GenCtlCheck", "Transform", "TransformList", "TransformListCheck"}, "lcase", "transform_list_mismatches")
				coq, _, problem = runGatedTransformList(t, *rf.TransformList)
				body = map[string]any{"transformlist": rf.TransformList}
			}

			if problem != "" {
				rep.violateKey(0, "gated:replay", problem, body)
			}

			if coq != "" {
				f.add(coq)
				rep.CoqFiles = append(rep.CoqFiles, f.finish(t, dir))
				rep.CaseFiles = append(rep.CaseFiles, writeJSONL(t, dir, f.name+".jsonl", []any{body}))
			}

			rep.count("replay", true)
			rep.write(t, dir)

			return
		}

		if rf.Gated != nil {
			f := newCoqFile(prop+"_gated_cases", []string{"Store", "Helpers", "DepDB", "Access", "GenCtl", "GenCtlCheck"}, "qcase", "gen_q_mismatches")

			coq, _, problem := runGatedQ(t, *rf.Gated)
			if problem != "" {
				rep.violateKey(0, "gated:replay", problem, map[string]any{"gated": rf.Gated})
			}

			if coq != "" {
				f.add(coq)
				rep.CoqFiles = append(rep.CoqFiles, f.finish(t, dir))
				rep.CaseFiles = append(rep.CaseFiles, writeJSONL(t, dir, prop+"_gated_cases.jsonl", []any{map[string]any{"gated": rf.Gated}}))
			}

			rep.count("replay", true)
			rep.write(t, dir)

			return
		}

		scs = append(scs, rf.Case)

		// a schedule-dependent violation may need several attempts to come back
		if n, _ := strconv.Atoi(os.Getenv("VERIF_REPEAT")); n > 1 {
			for range n - 1 {
				scs = append(scs, rf.Case)
			}
		}
	} else {
		r := newRng(seed(), "C06C07")

		// corpus: a tearing-down input seen for the first time under an ignore-teardown option (finding F7)
		scs = append(scs, gScenario{Config: "qtransform-while", Destroy: true, Steps: []gEnv{
			{Op: "faults", N: 1}, {Op: "create", ID: "a"}, {Op: "addfin", ID: "a", Fin: extFin}, {Op: "teardown", ID: "a"},
			{Op: "quiesce"}, {Op: "remfin", ID: "a", Fin: extFin}, {Op: "quiesce"},
		}})

		// corpus: a transform with an extra output meets a foreign leftover of that type; once it is gone the controller
		// must catch up by itself (the error restarts it; nothing it watches changes)
		for _, extra := range [][]gEnv{
			{{Op: "foreignout", ID: "a"}, {Op: "create", ID: "a"}, {Op: "sleep", D: int64(10 * time.Minute)}, {Op: "foreigngone", ID: "a"}, {Op: "quiesce"}},
			{{Op: "create", ID: "a"}, {Op: "create", ID: "b"}, {Op: "foreignout", ID: "c"}, {Op: "quiesce"}, {Op: "create", ID: "c"}, {Op: "touch", ID: "a"},
				{Op: "sleep", D: int64(7 * time.Minute)}, {Op: "foreigngone", ID: "c"}, {Op: "quiesce"}},
		} {
			scs = append(scs, gScenario{Config: "transform-extra", Steps: extra})
		}

		for range tier(400, 10000) {
			scs = append(scs, genGenericScenario(r))
		}
	}

	for i, sc := range scs {
		o := runGenericScenario(t, sc)

		key, _ := json.Marshal(sc)
		rep.count(string(key), len(o.fl) >= 2)
		rep.hit(sc.Config)

		for f := range o.fl {
			rep.hit(f)
		}

		if len(o.fl) >= 4 {
			rep.sample(map[string]any{"scenario": sc})
		}

		problems := o.c06
		if prop == "C07" {
			problems = o.c07
		}

		sort.Strings(problems)

		for _, p := range problems {
			rep.violateKey(i, genericKey(sc, p), p, map[string]any{"case": sc})
		}
	}

	if extra != nil && os.Getenv("VERIF_REPLAY") == "" {
		extra(rep, dir)
	}

	rep.Assumptions = append(rep.Assumptions, "the environment never removes the controller's own finalizer and never writes controller-owned outputs except foreign finalizers; the mapping is injective on ids")
	rep.write(t, dir)
}

func TestC06(t *testing.T) {
	runGenericProperty(t, "C06", "the real transform.Controller / qtransform.QController (plain, ignore-tearing-down, ignore-teardown-until/while) inside a real Runtime under synctest, optionally with destroy.Controller on the inputs: random histories of create/update/teardown/destroy/re-create of inputs, "+
		"foreign finalizers on inputs and outputs, transform durations 0..200ms, transient transform failures, concurrency 1-2; at every quiescence the oracle requires owned outputs == images of mapped inputs with the latest transformed content, no orphaned/stale output except ones held by foreign finalizers, no leftover finalizer on torn-down inputs whose output is gone; "+
		"non-trivial = at least two of teardown/destroy/re-create/foreign finalizers/faults occurred; a transform with an extra output meeting a foreign leftover; a transform whose output kind has the input's type in another namespace; "+
		"plus gated schedules of qtransform.QController.Reconcile on the real qruntime adapter (every runtime call held at a gate, environment operations within the property's assumptions in every gap, transform faults) ending with an undisturbed reconcile: replayed on GenCtl.q_step and the final state checked against GenCtlConv.converged; the same for transform.Controller.Run with two undisturbed cycles at the end (Transform.t_step); the same for destroy.Controller.Reconcile (Destroy.d_step; after the undisturbed reconcile no torn-down unowned item without finalizers may be left)", func(rep *Report, dir string) {
		gatedQPhase(t, "C06")(rep, dir)
		gatedTransformPhase(t, "C06")(rep, dir)
		gatedDestroyPhase(t, "C06")(rep, dir)

		// a transform whose output kind has the input's type (another namespace)
		for _, p := range runSameTypeTransform(t) {
			rep.violateKey(0, "same-type:"+strings.SplitN(p, ":", 2)[0], p, map[string]any{"same_type_transform": true})
		}

		rep.count("same-type-transform", true)
		rep.hit("same_type_transform")
	})
}

func TestC07(t *testing.T) {
	runGenericProperty(t, "C07", "same runs as C06 plus cleanup controllers (RemoveOutputs, HasNoOutputs, Combine of two HasNoOutputs handlers with dependents vanishing in either order); a recording proxy around the CoreState yields the totally ordered log of committed writes; the monitor checks on every prefix: an owned output implies its input exists and carries the controller's finalizer, "+
		"the controller removes its finalizer only when the output is gone, destroys outputs only when marked tearing down with no finalizers, and a cleanup controller releases its finalizer only when no dependent output exists; "+
		"plus gated schedules: qtransform.QController.Reconcile is called directly on the real qruntime adapter with every runtime call held at a gate, arbitrary store operations of other parties (incl. ones the assumptions exclude) placed between any two calls, transform faults injected; "+
		"the schedule, the kind of every runtime call, the reconcile result and the final store are replayed on GenCtl.q_step; the same for cleanup.Controller.Run with HasNoOutputs handlers (single and combined) against Cleanup.c_step, and for transform.Controller.Run with input finalizers against Transform.t_step, for transform.Controller.Run over several inputs with a many-to-one and partial mapping against the list-based machine TransformList.l_step (kind and target of every call, order of the finalizer releases; monitor: a release is issued only while no owned output exists at the id the input maps to), and for destroy.Controller.Reconcile against Destroy.d_step (Get and Destroy gated, every environment operation incl. destroy + re-create and revive in every gap; monitor: whatever the controller removes has no owner and no finalizers at that instant)", func(rep *Report, dir string) {
		gatedQPhase(t, "C07")(rep, dir)
		gatedCleanupPhase(t)(rep, dir)
		gatedTransformPhase(t, "C07")(rep, dir)
		gatedDestroyPhase(t, "C07")(rep, dir)
		gatedTransformListPhase(t, "C07")(rep, dir)
	})
}

func gatedQPhase(t *testing.T, prop string) func(rep *Report, dir string) {
	return func(rep *Report, dir string) {
		r := newRng(seed(), prop+"gated")
		f := newCoqFile(prop+"_gated_cases", []string{"Store", "Helpers", "DepDB", "Access", "GenCtl", "GenCtlCheck"}, "qcase", "gen_q_mismatches")

		var jl []any

		var todo []qgCase

		// corpus: the canonical life cycle with every environment operation placed in every gap
		todo = append(todo, gapCorpus(prop == "C06")...)

		for range tier(300, 6000) {
			if prop == "C06" {
				todo = append(todo, genQuietQ(r))
			} else {
				todo = append(todo, genGatedQ(r))
			}
		}

		for _, c := range todo {

			coq, flags, problem := runGatedQ(t, c)
			if problem != "" {
				rep.violateKey(len(jl), "gated:"+strings.SplitN(problem, " ", 2)[0]+strings.SplitN(problem+":", ":", 3)[1], problem, map[string]any{"gated": c})

				if coq == "" {
					continue
				}
			}

			f.add(coq)
			jl = append(jl, map[string]any{"gated": c})

			key, _ := json.Marshal(c)
			rep.count(string(key), len(flags) >= 6)
			rep.hit("gated:" + c.Mode)

			for fl := range flags {
				rep.hit("gated:" + fl)
			}
		}

		f.finishSharded(t, dir, rep, jl, 400)
	}
}

// gapCorpus: create; reconcile; teardown; reconcile — with one environment operation inserted at every position.
func gapCorpus(quiet bool) []qgCase {
	step := qgChoice{Kind: "step"}
	base := []qgChoice{
		{Kind: "env", Env: "in.create"}, step, step, step, step, {Kind: "restart"},
		{Kind: "env", Env: "in.teardown"}, step, step, step, step,
	}

	envs := []qgChoice{
		{Kind: "env", Env: "in.update"}, {Kind: "env", Env: "in.teardown"}, {Kind: "env", Env: "in.addfin", Fin: extFin},
		{Kind: "env", Env: "in.remfin", Fin: extFin}, {Kind: "env", Env: "in.destroy"},
		{Kind: "env", Env: "out.addfin", Fin: "g"}, {Kind: "env", Env: "out.remfin", Fin: "g"},
	}

	modes := []string{"plain"}

	if !quiet {
		envs = append(envs,
			qgChoice{Kind: "env", Env: "in.remfin", Fin: tcName}, qgChoice{Kind: "env", Env: "out.teardown"}, qgChoice{Kind: "env", Env: "out.destroy"},
			qgChoice{Kind: "env", Env: "out.create", Owner: tcName}, qgChoice{Kind: "env", Env: "out.create", Owner: "o2"}, qgChoice{Kind: "fault"},
		)
		modes = append(modes, "until", "while")
	}

	var out []qgCase

	for _, m := range modes {
		for pos := 1; pos <= len(base); pos++ {
			for _, e := range envs {
				sched := append([]qgChoice(nil), base[:pos]...)
				sched = append(sched, e)
				sched = append(sched, base[pos:]...)

				c := qgCase{Mode: m, Sched: sched, Quiet: quiet}

				if quiet {
					for range 6 {
						c.Sched = append(c.Sched, step)
					}

					c.Sched = append(c.Sched, qgChoice{Kind: "restart"})

					for range 6 {
						c.Sched = append(c.Sched, step)
					}
				}

				out = append(out, c)
			}
		}
	}

	return out
}
