package harness

import (
	"context"
	"fmt"
	"strings"
	"sync"
	"testing"
	"testing/synctest"
	"time"

	"go.uber.org/zap"

	"github.com/cosi-project/runtime/pkg/controller"
	"github.com/cosi-project/runtime/pkg/controller/generic/cleanup"
	cruntime "github.com/cosi-project/runtime/pkg/controller/runtime"
	"github.com/cosi-project/runtime/pkg/resource"
	"github.com/cosi-project/runtime/pkg/state"
	"github.com/cosi-project/runtime/pkg/state/impl/inmem"
	"github.com/cosi-project/runtime/pkg/state/impl/namespaced"
)

// Gated runs of the real cleanup.Controller (HasNoOutputs handlers, single and combined): Controller.Run is called
// directly on the real rruntime adapter with every runtime call held at a gate; the recorded schedule is replayed on
// Cleanup.c_step by CleanupCheck.ccase_ok.

type ccCase struct {
	RO      bool       `json:"remove_outputs,omitempty"` // the RemoveOutputs handler (machine CleanupRO.v) instead of HasNoOutputs
	Combine bool       `json:"combine,omitempty"`
	Sched   []qgChoice `json:"sched"`
}

// capR registers the real controller's declaration with the runtime, captures the adapter and does nothing else.
type capR struct {
	inner controller.Controller
	mu    sync.Mutex
	rt    controller.Runtime
	ready chan struct{}
}

func (p *capR) Name() string                 { return p.inner.Name() }
func (p *capR) Inputs() []controller.Input   { return p.inner.Inputs() }
func (p *capR) Outputs() []controller.Output { return p.inner.Outputs() }

func (p *capR) Run(ctx context.Context, r controller.Runtime, _ *zap.Logger) error {
	p.mu.Lock()
	if p.rt == nil {
		p.rt = r
		close(p.ready)
	}
	p.mu.Unlock()

	<-ctx.Done()

	return nil
}

// gatedRR is a controller.Runtime whose reads and writes are gated and whose reconcile events come from the driver.
type gatedRR struct {
	*gatedQR
	rt controller.Runtime
	ev chan controller.ReconcileEvent
}

func (g *gatedRR) EventCh() <-chan controller.ReconcileEvent { return g.ev }
func (g *gatedRR) QueueReconcile()                           {}
func (g *gatedRR) ResetRestartBackoff()                      {}
func (g *gatedRR) UpdateInputs(ins []controller.Input) error { return g.rt.UpdateInputs(ins) }
func (g *gatedRR) StartTrackingOutputs()                     { g.rt.StartTrackingOutputs() }
func (g *gatedRR) CleanupOutputs(ctx context.Context, k ...resource.Kind) error {
	return g.rt.CleanupOutputs(ctx, k...)
}

func runGatedCleanup(t *testing.T, c ccCase) (coq string, flags map[string]bool, problem string) {
	flags = map[string]bool{}

	synctest.Test(t, func(t *testing.T) {
		ctx, cancel := context.WithCancel(context.Background())
		defer cancel()

		st := state.WrapCore(namespaced.NewState(inmem.Build))
		t0 := time.Now()

		sel := func(in *InRes) state.ListOption {
			return state.WithLabelQuery(resource.LabelEqual("in", in.Metadata().ID()))
		}

		handler := cleanup.HasNoOutputs[*OutRes](sel)
		kinds := []string{"O"}

		if c.Combine {
			handler = cleanup.Combine(cleanup.HasNoOutputs[*OutRes](sel), cleanup.HasNoOutputs[*Out2Res](sel))
			kinds = []string{"O", "O2"}
		}

		if c.RO {
			handler = cleanup.RemoveOutputs[*OutRes](sel)
			kinds = []string{"O"}
		}

		inner := cleanup.NewController(cleanup.Settings[*InRes]{Name: "cl", Handler: handler})

		rt, err := cruntime.NewRuntime(st, zap.NewNop())
		if err != nil {
			t.Fatal(err)
		}

		cr := &capR{inner: inner, ready: make(chan struct{})}
		if err := rt.RegisterController(cr); err != nil {
			t.Fatal(err)
		}

		done := make(chan error, 1)

		go func() { done <- rt.Run(ctx) }()

		<-cr.ready

		g := &gatedRR{gatedQR: &gatedQR{inner: cr.rt}, rt: cr.rt, ev: make(chan controller.ReconcileEvent, 1)}

		var (
			wmu     sync.Mutex
			alive   bool
			stopRun context.CancelFunc
		)

		startRun := func() {
			var rctx context.Context

			rctx, stopRun = context.WithCancel(ctx)

			wmu.Lock()
			alive = true
			wmu.Unlock()

			go func() {
				inner.Run(rctx, g, zap.NewNop()) //nolint:errcheck

				wmu.Lock()
				alive = false
				wmu.Unlock()
			}()
		}

		// a pass is in progress iff a call is pending at the gate
		pending := func() (string, chan struct{}) {
			g.mu.Lock()
			defer g.mu.Unlock()

			return g.pending, g.release
		}

		pendingTarget := func() string {
			g.mu.Lock()
			defer g.mu.Unlock()

			return g.target
		}

		startRun()

		g.ev <- controller.ReconcileEvent{}

		synctest.Wait()

		var steps []string

		// RemoveOutputs flavour: the same schedule language with the R-constructors of CleanupRO.v and the call's target
		add := func(step, target string) {
			if c.RO {
				step = "(R" + strings.TrimSuffix(strings.TrimPrefix(step, "(C"), ")") + ", " + target + ")"
			}

			steps = append(steps, step)
		}

		inPass := true // the first pass has started (model: C0)
		createdSinceList := false
		lastOK := true

		now := func() string { return coqZ(int64(time.Since(t0))) }
		payloadN := 0

		get := func(typ, id string) resource.Resource {
			r, err := st.Get(ctx, resource.NewMetadata("n1", typ, id, resource.VersionUndefined))
			if err != nil {
				return nil
			}

			return r
		}

		for _, ch := range c.Sched {
			switch ch.Kind {
			case "step":
				if !inPass {
					continue
				}

				kind, rel := pending()
				if rel == nil {
					problem = "a pass is in progress but no runtime call is pending"

					return
				}

				target := pendingTarget()
				if kind == "GList" {
					target = ""
				}

				g.mu.Lock()
				g.pending, g.release = "", nil
				g.mu.Unlock()

				switch kind { //nolint:gocritic
				case "GRemFin":
					// monitor (third clause of C07): the release is issued only while no dependent exists - unless a
					// dependent was created since this pass began, possibly after a handler had looked (excluded by the
					// property's assumption; with combined handlers the first may have listed before the creation)
					if in := get("T", "a"); in != nil && in.Metadata().Phase() == resource.PhaseTearingDown && !createdSinceList {
						for _, k := range kinds {
							for _, id := range []string{"d1", "d2"} {
								if d := get(k, id); d != nil {
									if c.RO && d.Metadata().Owner() != "" {
										continue // RemoveOutputs leaves owned dependents to their owner
									}

									if v, _ := d.Metadata().Labels().Get("in"); v == "a" {
										problem = fmt.Sprintf("released-before-handler: RemoveFinalizer on the torn-down input is issued while dependent %s/%s (phase %s, finalizers %v) still exists", k, id, d.Metadata().Phase(), *d.Metadata().Finalizers())
									}
								}
							}
						}
					}
				}

				flags["call:"+kind] = true
				add(fmt.Sprintf("(CStep %s, %s)", now(), kind), coqAtom(target))

				close(rel)
				synctest.Wait()

				if _, rel2 := pending(); rel2 == nil {
					// the pass is over: either back at the select, or Run returned an error
					inPass = false

					wmu.Lock()
					lastOK = alive
					wmu.Unlock()

					if !lastOK {
						flags["pass_error"] = true
					}
				}
			case "restart":
				if inPass {
					continue
				}

				wmu.Lock()
				a := alive
				wmu.Unlock()

				if !a {
					startRun()
				}

				g.ev <- controller.ReconcileEvent{}

				synctest.Wait()

				inPass = true
				createdSinceList = false // a new pass: every handler lists after this point

				add("(CRestart, GNone)", "0%N")
				flags["restart"] = true

				if _, rel := pending(); rel == nil {
					problem = "a new pass did not reach its first runtime call"

					return
				}
			case "env":
				var (
					r     resource.Resource
					owner string
				)

				switch ch.Env {
				case "in.create":
					payloadN++
					in := newIn("a", fmt.Sprintf("p%d", payloadN))
					add(fmt.Sprintf("(CEnv %s (OpCreate %s 0%%N), GNone)", now(), coqRes(in, t0)), "0%N")
					st.Create(ctx, in) //nolint:errcheck

					continue
				case "in.update":
					if r = get("T", "a"); r != nil {
						payloadN++
						r.(*InRes).SetPayload(fmt.Sprintf("p%d", payloadN)) //nolint:forcetypeassert
					}
				case "in.teardown":
					if r = get("T", "a"); r != nil {
						r.Metadata().SetPhase(resource.PhaseTearingDown)
					}
				case "in.addfin":
					if r = get("T", "a"); r != nil {
						r.Metadata().Finalizers().Add(ch.Fin)
					}
				case "in.remfin":
					if r = get("T", "a"); r != nil {
						r.Metadata().Finalizers().Remove(ch.Fin)
					}
				case "in.destroy":
					add(fmt.Sprintf("(CEnv %s (OpDestroy %s 0%%N), GNone)", now(), coqKey("n1", "T", "a")), "0%N")
					st.Destroy(ctx, resource.NewMetadata("n1", "T", "a", resource.VersionUndefined)) //nolint:errcheck

					continue
				case "dep.create":
					var d resource.Resource = newOut(ch.Owner, "dep")
					if ch.Fin == "O2" {
						d = newOut2(ch.Owner, "dep")
					}

					d.Metadata().Labels().Set("in", "a")
					add(fmt.Sprintf("(CEnv %s (OpCreate %s 0%%N), GNone)", now(), coqRes(d, t0)), "0%N")
					st.Create(ctx, d) //nolint:errcheck

					flags["dependent_created"] = true
					createdSinceList = true

					continue
				case "dep.createowned":
					d := newOut(ch.Owner, "dep")
					d.Metadata().Labels().Set("in", "a")
					add(fmt.Sprintf("(CEnv %s (OpCreate %s %s), GNone)", now(), coqRes(d, t0), coqAtom("ow")), "0%N")

					if st.Create(ctx, d, state.WithCreateOwner("ow")) == nil {
						flags["owned_dependent"] = true
					}

					continue
				case "dep.destroy":
					add(fmt.Sprintf("(CEnv %s (OpDestroy %s 0%%N), GNone)", now(), coqKey("n1", ch.Fin, ch.Owner)), "0%N")

					if st.Destroy(ctx, resource.NewMetadata("n1", ch.Fin, ch.Owner, resource.VersionUndefined)) == nil {
						flags["dependent_destroyed"] = true
					}

					continue
				case "dep.relabel":
					if r = get(ch.Fin, ch.Owner); r != nil {
						r.Metadata().Labels().Set("in", "zz")
					}
				case "dep.teardown":
					// a dependent that is on its way out (marked tearing down, possibly without finalizers) is still there
					if r = get(ch.Fin, ch.Owner); r != nil {
						r.Metadata().SetPhase(resource.PhaseTearingDown)
						flags["dependent_torn_down_not_destroyed"] = true
					}
				case "dep.addfin":
					if r = get(ch.Fin, ch.Owner); r != nil {
						r.Metadata().Finalizers().Add(extFin)
					}
				case "dep.remfin":
					if r = get(ch.Fin, ch.Owner); r != nil {
						r.Metadata().Finalizers().Remove(extFin)
					}
				}

				if r == nil {
					continue
				}

				flags[ch.Env] = true
				add(fmt.Sprintf("(CEnv %s (OpUpdate %s %s None), GNone)", now(), coqRes(r, t0), coqAtom(owner)), "0%N")

				st.Update(ctx, r, state.WithUpdateOwner(owner), state.WithExpectedPhaseAny()) //nolint:errcheck
			}
		}

		final := "None"
		if !inPass {
			final = "(Some " + coqBool(lastOK) + ")"
		}

		var lists []string

		for _, k := range append([]string{"T"}, kinds...) {
			l, err := coqListOf(ctx, st, "n1", k, t0)
			if err != nil {
				t.Fatal(err)
			}

			lists = append(lists, fmt.Sprintf("(%s, %s)", coqAtom(k), l))
		}

		var ks []string
		for _, k := range kinds {
			ks = append(ks, coqAtom(k))
		}

		coq = fmt.Sprintf("(%s, %s, %s, %s, %s, %s, %s, %s, %s)",
			coqAtom("n1"), coqAtom("T"), coqAtom("cl"), coqAtom("in"), coqList(ks), coqAtom("a"), coqList(steps), final, coqList(lists))

		if c.RO {
			ins, err1 := coqListOf(ctx, st, "n1", "T", t0)
			outs, err2 := coqListOf(ctx, st, "n1", "O", t0)

			if err1 != nil || err2 != nil {
				t.Fatal(err1, err2)
			}

			coq = fmt.Sprintf("(%s, %s, %s, %s, %s, %s, %s, %s, %s, %s)",
				coqAtom("n1"), coqAtom("T"), coqAtom("O"), coqAtom("cl"), coqAtom("in"), coqAtom("a"), coqList(steps), final, ins, outs)
		}

		cancel()

		if stopRun != nil {
			stopRun()
		}

		g.mu.Lock()
		g.free = true

		if g.release != nil {
			close(g.release)
			g.release = nil
		}
		g.mu.Unlock()

		<-done
		synctest.Wait()
	})

	return coq, flags, problem
}

func genGatedCleanup(r *rng) ccCase {
	c := ccCase{Combine: r.chance(1, 2)}

	if r.chance(1, 3) {
		c = ccCase{RO: true}
	}

	c.Sched = append(c.Sched, qgChoice{Kind: "env", Env: "in.create"})

	depKinds := []string{"O"}
	if c.Combine {
		depKinds = []string{"O", "O2"}
	}

	for range 8 + r.intn(30) {
		switch x := r.intn(24); {
		case x < 8:
			c.Sched = append(c.Sched, qgChoice{Kind: "step"})
		case x < 11:
			c.Sched = append(c.Sched, qgChoice{Kind: "restart"})
		case x < 13:
			c.Sched = append(c.Sched, qgChoice{Kind: "env", Env: "in.teardown"})
		case x < 14:
			c.Sched = append(c.Sched, qgChoice{Kind: "env", Env: pick(r, []string{"in.update", "in.create", "in.destroy"})})
		case x < 15:
			c.Sched = append(c.Sched, qgChoice{Kind: "env", Env: pick(r, []string{"in.addfin", "in.remfin"}), Fin: pick(r, []string{extFin, "cl"})})
		case x < 17:
			c.Sched = append(c.Sched, qgChoice{Kind: "env", Env: "dep.create", Fin: pick(r, depKinds), Owner: pick(r, []string{"d1", "d2"})})
		case x < 19:
			c.Sched = append(c.Sched, qgChoice{Kind: "env", Env: "dep.destroy", Fin: pick(r, depKinds), Owner: pick(r, []string{"d1", "d2"})})
		default:
			e := qgChoice{Kind: "env", Env: pick(r, []string{"dep.relabel", "dep.teardown", "dep.teardown", "dep.addfin"}), Fin: pick(r, depKinds), Owner: pick(r, []string{"d1", "d2"})}
			if c.RO && r.chance(1, 3) {
				e.Env = "dep.createowned"
			}

			c.Sched = append(c.Sched, e)
		}
	}

	return c
}

// cleanupCorpus: an input with one dependent is torn down and reconciled, the dependent goes away, reconciled again -
// with one operation on the dependent (teardown, finalizer, relabel, destroy, a second dependent) at every position.
func cleanupCorpus() []ccCase {
	step := qgChoice{Kind: "step"}
	base := []qgChoice{
		{Kind: "env", Env: "in.create"}, step, step, {Kind: "env", Env: "dep.create", Fin: "O", Owner: "d1"}, {Kind: "restart"},
		{Kind: "env", Env: "in.teardown"}, step, step, step, {Kind: "restart"}, step, step, step,
		{Kind: "env", Env: "dep.destroy", Fin: "O", Owner: "d1"}, {Kind: "restart"}, step, step, step,
	}
	envs := []qgChoice{
		{Kind: "env", Env: "dep.teardown", Fin: "O", Owner: "d1"}, {Kind: "env", Env: "dep.addfin", Fin: "O", Owner: "d1"},
		{Kind: "env", Env: "dep.relabel", Fin: "O", Owner: "d1"}, {Kind: "env", Env: "dep.destroy", Fin: "O", Owner: "d1"},
		{Kind: "env", Env: "dep.create", Fin: "O", Owner: "d2"},
	}

	var out []ccCase

	for _, combine := range []bool{false, true} {
		for pos := 4; pos <= len(base); pos++ {
			for _, e := range envs {
				sched := append([]qgChoice(nil), base[:pos]...)
				sched = append(sched, e)
				sched = append(sched, base[pos:]...)
				out = append(out, ccCase{Combine: combine, Sched: sched})
			}
		}
	}

	// RemoveOutputs: the handler itself tears the dependent down and destroys it (list, teardown, destroy, release)
	roBase := []qgChoice{
		{Kind: "env", Env: "in.create"}, step, step, {Kind: "env", Env: "dep.create", Fin: "O", Owner: "d1"}, {Kind: "restart"},
		{Kind: "env", Env: "in.teardown"}, step, step, step, step, step, {Kind: "restart"}, step, step, step, step,
	}
	roEnvs := append(append([]qgChoice(nil), envs...), qgChoice{Kind: "env", Env: "dep.createowned", Fin: "O", Owner: "d2"},
		qgChoice{Kind: "env", Env: "dep.remfin", Fin: "O", Owner: "d1"})

	for pos := 4; pos <= len(roBase); pos++ {
		for _, e := range roEnvs {
			sched := append([]qgChoice(nil), roBase[:pos]...)
			sched = append(sched, e)
			sched = append(sched, roBase[pos:]...)
			out = append(out, ccCase{RO: true, Sched: sched})
		}
	}

	return out
}

func gatedCleanupPhase(t *testing.T) func(rep *Report, dir string) {
	return func(rep *Report, dir string) {
		r := newRng(seed(), "C07cleanup")
		f := newCoqFile("C07_cleanup_cases", []string{"Store", "Helpers", "DepDB", "Access", "GenCtl", "GenCtlCheck", "Cleanup", "CleanupCheck"}, "ccase", "cleanup_mismatches")
		fr := newCoqFile("C07_cleanup_ro_cases", []string{"Store", "Helpers", "DepDB", "Access", "GenCtl", "GenCtlCheck", "Cleanup", "CleanupRO", "CleanupROCheck"}, "rocase", "cleanup_ro_mismatches")

		var jl, jlr []any

		todo := cleanupCorpus()

		for range tier(300, 6000) {
			todo = append(todo, genGatedCleanup(r))
		}

		for _, c := range todo {

			coq, flags, problem := runGatedCleanup(t, c)
			if problem != "" {
				rep.violateKey(len(jl)+len(jlr), "gated-cleanup:"+strings.SplitN(problem, ":", 2)[0], problem, map[string]any{"cleanup": c})

				if coq == "" {
					continue
				}
			}

			if c.RO {
				fr.add(coq)
				jlr = append(jlr, map[string]any{"cleanup": c})
			} else {
				f.add(coq)
				jl = append(jl, map[string]any{"cleanup": c})
			}

			rep.count(fmt.Sprint(c), len(flags) >= 5)
			rep.hit("cleanup:combine=" + fmt.Sprint(c.Combine) + ",remove_outputs=" + fmt.Sprint(c.RO))

			for fl := range flags {
				rep.hit("cleanup:" + fl)
			}
		}

		f.finishSharded(t, dir, rep, jl, 400)
		fr.finishSharded(t, dir, rep, jlr, 400)
	}
}
