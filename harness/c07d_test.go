package harness

import (
	"context"
	"encoding/json"
	"fmt"
	"sync"
	"testing"
	"testing/synctest"
	"time"

	"github.com/siderolabs/gen/optional"
	"go.uber.org/zap"

	"github.com/cosi-project/runtime/pkg/controller/generic/destroy"
	cruntime "github.com/cosi-project/runtime/pkg/controller/runtime"
	"github.com/cosi-project/runtime/pkg/resource"
	"github.com/cosi-project/runtime/pkg/state"
	"github.com/cosi-project/runtime/pkg/state/impl/inmem"
	"github.com/cosi-project/runtime/pkg/state/impl/namespaced"
)

// Gated runs of the real destroy.Controller.Reconcile against the real qruntime adapter: both runtime calls (Get,
// Destroy) block until the schedule releases them; arbitrary store operations of other parties in between (also ones
// the phase theorem's hypothesis excludes: destroy and re-create, revive).  The recorded schedule is replayed on
// Destroy.d_step by DestroyCheck.dcase_ok.  A write-log monitor checks the unconditional clause on the real code:
// whatever the controller removes had no owner and no finalizers at that instant.

type dgCase struct {
	Sched []qgChoice `json:"sched"`
	Quiet bool       `json:"quiet,omitempty"` // ends with an undisturbed reconcile: the C06 clause is checked
}

func runGatedDestroy(t *testing.T, c dgCase) (coq string, flags map[string]bool, problem string) {
	flags = map[string]bool{}

	synctest.Test(t, func(t *testing.T) {
		ctx, cancel := context.WithCancel(context.Background())
		defer cancel()

		st := state.WrapCore(namespaced.NewState(inmem.Build))
		t0 := time.Now()

		inner := destroy.NewController[*InRes](optional.Some(uint(1)))

		rt, err := cruntime.NewRuntime(st, zap.NewNop())
		if err != nil {
			t.Fatal(err)
		}

		cq := &capQ{inner: inner, ready: make(chan struct{})}
		if err := rt.RegisterQController(cq); err != nil {
			t.Fatal(err)
		}

		done := make(chan error, 1)

		go func() { done <- rt.Run(ctx) }()

		<-cq.ready

		g := &gatedQR{inner: cq.rt}
		ptr := resource.NewMetadata("n1", "T", "a", resource.VersionUndefined)

		var (
			wmu      sync.Mutex
			running  bool
			finished bool
			lastErr  error
		)

		start := func() {
			wmu.Lock()
			running, finished = true, false
			wmu.Unlock()

			go func() {
				err := inner.Reconcile(ctx, zap.NewNop(), g, ptr)

				wmu.Lock()
				running, finished, lastErr = false, true, err
				wmu.Unlock()
			}()

			synctest.Wait()
		}

		var steps []string

		now := func() string { return coqZ(int64(time.Since(t0))) }
		payloadN := 0

		get := func() resource.Resource {
			r, err := st.Get(ctx, ptr)
			if err != nil {
				return nil
			}

			return r
		}

		for _, ch := range c.Sched {
			switch ch.Kind {
			case "step":
				wmu.Lock()
				isRunning := running
				wmu.Unlock()

				if !isRunning {
					continue
				}

				g.mu.Lock()
				kind, rel := g.pending, g.release
				g.pending, g.release = "", nil
				g.mu.Unlock()

				if rel == nil {
					problem = "worker neither finished nor waiting at a runtime call"

					return
				}

				before := get()

				flags["call:"+kind] = true
				steps = append(steps, fmt.Sprintf("(DStep %s, %s)", now(), kind))

				close(rel)
				synctest.Wait()

				// write-log monitor: the controller is the only party moving during this step
				after := get()
				if before != nil && (after == nil || !after.Metadata().Equal(*before.Metadata())) {
					switch {
					case after != nil:
						problem = fmt.Sprintf("destroy-controller-wrote: the destroy controller changed %s instead of removing it", before.Metadata())
					case before.Metadata().Owner() != "" || !before.Metadata().Finalizers().Empty():
						problem = fmt.Sprintf("destroyed-not-ready: the destroy controller removed %s (owner %q, finalizers %v)", before.Metadata().ID(), before.Metadata().Owner(), before.Metadata().Finalizers())
					default:
						flags["destroyed"] = true

						if before.Metadata().Phase() != resource.PhaseTearingDown {
							flags["destroyed_running_after_recreate"] = true // outside the phase theorem's hypothesis
						}
					}

					if problem != "" {
						return
					}
				}
			case "restart":
				wmu.Lock()
				canStart := !running
				wmu.Unlock()

				if canStart {
					steps = append(steps, "(DRestart, GNone)")

					start()

					flags["restart"] = true
				}
			case "env":
				var r resource.Resource

				owner := ""

				switch ch.Env {
				case "in.create":
					payloadN++
					in := newIn("a", fmt.Sprintf("p%d", payloadN))
					steps = append(steps, fmt.Sprintf("(DEnv %s (OpCreate %s %s), GNone)", now(), coqRes(in, t0), coqAtom(ch.Owner)))

					if st.Create(ctx, in, state.WithCreateOwner(ch.Owner)) == nil && ch.Owner != "" {
						flags["owned_item"] = true
					}

					continue
				case "in.update":
					if r = get(); r != nil {
						payloadN++
						r.(*InRes).SetPayload(fmt.Sprintf("p%d", payloadN)) //nolint:forcetypeassert
					}
				case "in.teardown":
					if r = get(); r != nil {
						r.Metadata().SetPhase(resource.PhaseTearingDown)
					}
				case "in.revive":
					if r = get(); r != nil {
						r.Metadata().SetPhase(resource.PhaseRunning)
					}
				case "in.addfin":
					if r = get(); r != nil {
						r.Metadata().Finalizers().Add(ch.Fin)
					}
				case "in.remfin":
					if r = get(); r != nil {
						r.Metadata().Finalizers().Remove(ch.Fin)
					}
				case "in.destroy":
					if r = get(); r != nil {
						owner = r.Metadata().Owner()
					}

					steps = append(steps, fmt.Sprintf("(DEnv %s (OpDestroy %s %s), GNone)", now(), coqKey("n1", "T", "a"), coqAtom(owner)))

					if st.Destroy(ctx, ptr, state.WithDestroyOwner(owner)) == nil {
						flags["destroyed_by_env"] = true
					}

					continue
				}

				if r == nil {
					continue
				}

				owner = r.Metadata().Owner()
				flags[ch.Env] = true
				steps = append(steps, fmt.Sprintf("(DEnv %s (OpUpdate %s %s None), GNone)", now(), coqRes(r, t0), coqAtom(owner)))

				st.Update(ctx, r, state.WithUpdateOwner(owner), state.WithExpectedPhaseAny()) //nolint:errcheck
			}
		}

		wmu.Lock()
		fin, lerr := finished, lastErr
		wmu.Unlock()

		final := "None"

		switch {
		case fin:
			final = "(Some " + coqBool(lerr == nil) + ")"

			if lerr != nil {
				flags["reconcile_error"] = true
			}
		case len(steps) == 0 || !flags["restart"]:
			final = "(Some true)" // no reconcile was ever started: the machine rests in its initial DDone true
		}

		if c.Quiet && problem == "" {
			// C06 clause: after an undisturbed reconcile no item ready to be destroyed is left
			cur := get()

			switch {
			case !fin || lerr != nil:
				problem = fmt.Sprintf("not-converged: the undisturbed reconcile of the destroy controller did not end successfully (finished=%v err=%v)", fin, lerr)
			case cur != nil && cur.Metadata().Phase() == resource.PhaseTearingDown && cur.Metadata().Owner() == "" && cur.Metadata().Finalizers().Empty():
				problem = "not-converged: a torn-down, unowned item without finalizers is still there after an undisturbed reconcile of the destroy controller"
			}
		}

		lst, err := coqListOf(ctx, st, "n1", "T", t0)
		if err != nil {
			t.Fatal(err)
		}

		coq = fmt.Sprintf("(%s, %s, %s, %s, %s, %s, %s)", coqAtom("n1"), coqAtom("T"), coqAtom("dctl"), coqAtom("a"), coqList(steps), final, lst)

		cancel()

		g.mu.Lock()
		g.free = true

		if g.release != nil {
			close(g.release)
			g.release = nil
		}
		g.mu.Unlock()

		<-done
		synctest.Wait()
	})

	return coq, flags, problem
}

func genGatedDestroy(r *rng, quiet bool) dgCase {
	c := dgCase{Quiet: quiet}

	c.Sched = append(c.Sched, qgChoice{Kind: "env", Env: "in.create", Owner: pick(r, []string{"", "", "", "ow"})})

	if r.chance(2, 3) {
		c.Sched = append(c.Sched, qgChoice{Kind: "env", Env: "in.teardown"})
	}

	for range 4 + r.intn(24) {
		switch x := r.intn(20); {
		case x < 7:
			c.Sched = append(c.Sched, qgChoice{Kind: "step"})
		case x < 10:
			c.Sched = append(c.Sched, qgChoice{Kind: "restart"})
		case x < 13:
			c.Sched = append(c.Sched, qgChoice{Kind: "env", Env: "in.teardown"})
		case x < 15:
			c.Sched = append(c.Sched, qgChoice{Kind: "env", Env: pick(r, []string{"in.addfin", "in.remfin"}), Fin: pick(r, []string{extFin, "g"})})
		case x < 16:
			c.Sched = append(c.Sched, qgChoice{Kind: "env", Env: "in.update"})
		case x < 17:
			c.Sched = append(c.Sched, qgChoice{Kind: "env", Env: "in.revive"})
		case x < 18:
			c.Sched = append(c.Sched, qgChoice{Kind: "env", Env: "in.destroy"})
		default:
			c.Sched = append(c.Sched, qgChoice{Kind: "env", Env: "in.create", Owner: pick(r, []string{"", "", "ow"})})
		}
	}

	if quiet {
		c.Sched = append(c.Sched, qgChoice{Kind: "step"}, qgChoice{Kind: "step"}, qgChoice{Kind: "restart"}, qgChoice{Kind: "step"}, qgChoice{Kind: "step"})
	}

	return c
}

// destroyGapCorpus: create; teardown; reconcile (Get, Destroy) with every environment operation in every gap.
func destroyGapCorpus(quiet bool) []dgCase {
	step := qgChoice{Kind: "step"}
	base := []qgChoice{{Kind: "env", Env: "in.create"}, {Kind: "env", Env: "in.teardown"}, {Kind: "restart"}, step, step}
	envs := []qgChoice{
		{Kind: "env", Env: "in.update"}, {Kind: "env", Env: "in.teardown"}, {Kind: "env", Env: "in.revive"},
		{Kind: "env", Env: "in.addfin", Fin: extFin}, {Kind: "env", Env: "in.remfin", Fin: extFin},
		{Kind: "env", Env: "in.destroy"}, {Kind: "env", Env: "in.create"}, {Kind: "env", Env: "in.create", Owner: "ow"},
	}

	var out []dgCase

	for pos := 1; pos <= len(base); pos++ {
		for _, e := range envs {
			for _, e2 := range append([]qgChoice{{Kind: "none"}}, envs...) {
				sched := append([]qgChoice(nil), base[:pos]...)
				sched = append(sched, e)

				if e2.Kind != "none" {
					sched = append(sched, e2)
				}

				sched = append(sched, base[pos:]...)

				if quiet {
					sched = append(sched, step, step, qgChoice{Kind: "restart"}, step, step)
				}

				out = append(out, dgCase{Sched: sched, Quiet: quiet})
			}
		}
	}

	return out
}

func gatedDestroyPhase(t *testing.T, prop string) func(rep *Report, dir string) {
	return func(rep *Report, dir string) {
		r := newRng(seed(), prop+"destroyctl")
		f := newCoqFile(prop+"_destroyctl_cases", []string{"Store", "Helpers", "DepDB", "Access", "GenCtl", "GenCtlCheck", "Destroy", "DestroyCheck"}, "dcase", "destroy_mismatches")

		var jl []any

		todo := destroyGapCorpus(prop == "C06")

		for range tier(200, 4000) {
			todo = append(todo, genGatedDestroy(r, prop == "C06"))
		}

		for _, c := range todo {
			coq, flags, problem := runGatedDestroy(t, c)
			if problem != "" {
				rep.violateKey(len(jl), "gated-destroyctl:"+problem, problem, map[string]any{"destroyctl": c})

				if coq == "" {
					continue
				}
			}

			f.add(coq)
			jl = append(jl, map[string]any{"destroyctl": c})

			key, _ := json.Marshal(c)
			rep.count(string(key), len(flags) >= 5)

			for fl := range flags {
				rep.hit("destroyctl:" + fl)
			}
		}

		f.finishSharded(t, dir, rep, jl, 400)
	}
}
