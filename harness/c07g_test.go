package harness

import (
	"context"
	"errors"
	"fmt"
	"strings"
	"sync"
	"testing"
	"testing/synctest"
	"time"

	"go.uber.org/zap"

	"github.com/cosi-project/runtime/pkg/controller"
	"github.com/cosi-project/runtime/pkg/controller/generic/qtransform"
	cruntime "github.com/cosi-project/runtime/pkg/controller/runtime"
	"github.com/cosi-project/runtime/pkg/resource"
	"github.com/cosi-project/runtime/pkg/state"
	"github.com/cosi-project/runtime/pkg/state/impl/inmem"
	"github.com/cosi-project/runtime/pkg/state/impl/namespaced"
	"github.com/cosi-project/runtime/pkg/state/owned"
)

// Gated runs of the real qtransform.QController.Reconcile against the real qruntime adapter: every call the
// controller makes on its controller.QRuntime blocks until the schedule releases it, and the schedule places
// arbitrary store operations of other parties between any two calls.  The recorded schedule is replayed on
// GenCtl.q_step by GenCtlCheck.qcase_ok.

type qgChoice struct {
	Kind  string `json:"kind"` // step | fault | restart | env
	Env   string `json:"env,omitempty"`
	Fin   string `json:"fin,omitempty"`
	Owner string `json:"owner,omitempty"`
}

type qgCase struct {
	Mode  string     `json:"mode"` // plain | until | while
	Sched []qgChoice `json:"sched"`
	Quiet bool       `json:"quiet,omitempty"` // the schedule ends with an undisturbed reconcile: check the converged state (C06)
}

// capQ registers the generic controller's settings with the runtime but reconciles nothing itself; it captures the adapter.
type capQ struct {
	inner controller.QController
	mu    sync.Mutex
	rt    controller.QRuntime
	ready chan struct{}
}

func (p *capQ) Name() string { return p.inner.Name() }

func (p *capQ) Settings() controller.QSettings {
	s := p.inner.Settings()
	s.RunHook = func(ctx context.Context, _ *zap.Logger, r controller.QRuntime) error {
		p.mu.Lock()
		if p.rt == nil {
			p.rt = r
			close(p.ready)
		}
		p.mu.Unlock()

		<-ctx.Done()

		return nil
	}

	return s
}

func (p *capQ) Reconcile(context.Context, *zap.Logger, controller.QRuntime, resource.Pointer) error {
	return nil
}

func (p *capQ) MapInput(context.Context, *zap.Logger, controller.QRuntime, controller.ReducedResourceMetadata) ([]resource.Pointer, error) {
	return nil, nil
}

// gatedQR blocks every runtime call until released.
type gatedQR struct {
	inner   controller.QRuntime
	mu      sync.Mutex
	pending string // kind of the call waiting at the gate ("" = none)
	target  string // id of the resource the waiting call is about ("" for listings)
	release chan struct{}
	free    bool // the run is over: let the worker run out
}

func (g *gatedQR) gate(kind string) { g.gateT(kind, "") }

func (g *gatedQR) gateT(kind, target string) {
	g.mu.Lock()
	if g.free {
		g.mu.Unlock()

		return
	}

	g.pending = kind
	g.target = target
	ch := make(chan struct{})
	g.release = ch
	g.mu.Unlock()

	<-ch
}

func (g *gatedQR) Get(ctx context.Context, p resource.Pointer, o ...state.GetOption) (resource.Resource, error) { //nolint:ireturn
	g.gate("GGet")

	return g.inner.Get(ctx, p, o...)
}

func (g *gatedQR) List(ctx context.Context, k resource.Kind, o ...state.ListOption) (resource.List, error) {
	g.gate("GList")

	return g.inner.List(ctx, k, o...)
}

func (g *gatedQR) GetUncached(ctx context.Context, p resource.Pointer, o ...state.GetOption) (resource.Resource, error) { //nolint:ireturn
	g.gate("GGet")

	return g.inner.GetUncached(ctx, p, o...)
}

func (g *gatedQR) ListUncached(ctx context.Context, k resource.Kind, o ...state.ListOption) (resource.List, error) {
	g.gate("GList")

	return g.inner.ListUncached(ctx, k, o...)
}

func (g *gatedQR) ContextWithTeardown(ctx context.Context, p resource.Pointer) (context.Context, error) {
	g.gate("GCtx")

	return g.inner.ContextWithTeardown(ctx, p)
}

func (g *gatedQR) Create(ctx context.Context, r resource.Resource, o ...owned.CreateOption) error {
	g.gate("GCreate")

	return g.inner.Create(ctx, r, o...)
}

func (g *gatedQR) Update(ctx context.Context, r resource.Resource) error {
	g.gate("GUpdate")

	return g.inner.Update(ctx, r)
}

func (g *gatedQR) Modify(ctx context.Context, r resource.Resource, f func(resource.Resource) error, o ...owned.ModifyOption) error {
	g.gateT("GModify", r.Metadata().ID())

	return g.inner.Modify(ctx, r, f, o...)
}

func (g *gatedQR) ModifyWithResult(ctx context.Context, r resource.Resource, f func(resource.Resource) error, o ...owned.ModifyOption) (resource.Resource, error) { //nolint:ireturn
	g.gateT("GModify", r.Metadata().ID())

	return g.inner.ModifyWithResult(ctx, r, f, o...)
}

func (g *gatedQR) Teardown(ctx context.Context, p resource.Pointer, o ...owned.DeleteOption) (bool, error) {
	g.gateT("GTeardown", p.ID())

	return g.inner.Teardown(ctx, p, o...)
}

func (g *gatedQR) Destroy(ctx context.Context, p resource.Pointer, o ...owned.DeleteOption) error {
	g.gateT("GDestroy", p.ID())

	return g.inner.Destroy(ctx, p, o...)
}

func (g *gatedQR) AddFinalizer(ctx context.Context, p resource.Pointer, f ...resource.Finalizer) error {
	g.gateT("GAddFin", p.ID())

	return g.inner.AddFinalizer(ctx, p, f...)
}

func (g *gatedQR) RemoveFinalizer(ctx context.Context, p resource.Pointer, f ...resource.Finalizer) error {
	g.gateT("GRemFin", p.ID())

	return g.inner.RemoveFinalizer(ctx, p, f...)
}

// runGatedQ executes one schedule; returns the Coq case and coverage flags.
func runGatedQ(t *testing.T, c qgCase) (coq string, flags map[string]bool, problem string) {
	flags = map[string]bool{}

	synctest.Test(t, func(t *testing.T) {
		ctx, cancel := context.WithCancel(context.Background())
		defer cancel()

		st := state.WrapCore(namespaced.NewState(inmem.Build))
		t0 := time.Now()

		var (
			faultMu sync.Mutex
			fault   bool
		)

		var qopts []qtransform.ControllerOption

		mode := "QPlain"

		switch c.Mode {
		case "until":
			qopts = append(qopts, qtransform.WithIgnoreTeardownUntil())
			mode = "QUntil"
		case "while":
			qopts = append(qopts, qtransform.WithIgnoreTeardownWhile(extFin))
			mode = "(QWhile " + coqAtom(extFin) + ")"
		}

		inner := qtransform.NewQController(qtransform.Settings[*InRes, *OutRes]{
			Name:              tcName,
			MapMetadataFunc:   func(in *InRes) *OutRes { return newOut(in.Metadata().ID(), "") },
			UnmapMetadataFunc: func(o *OutRes) *InRes { return newIn(o.Metadata().ID(), "") },
			TransformFunc: func(_ context.Context, _ controller.Reader, _ *zap.Logger, in *InRes, o *OutRes) error {
				faultMu.Lock()
				f := fault
				faultMu.Unlock()

				if f {
					return errors.New("transform failure")
				}

				o.SetPayload("t:" + in.Payload())

				return nil
			},
		}, qopts...)

		rt, err := cruntime.NewRuntime(st, zap.NewNop())
		if err != nil {
			t.Fatal(err)
		}

		cq := &capQ{inner: inner, ready: make(chan struct{})}
		if err := rt.RegisterQController(cq); err != nil {
			t.Fatal(err)
		}

		done := make(chan error, 1)

		go func() { done <- rt.Run(ctx) }()

		<-cq.ready

		g := &gatedQR{inner: cq.rt}
		ptr := resource.NewMetadata("n1", "T", "a", resource.VersionUndefined)

		var (
			wmu      sync.Mutex
			running  bool
			finished bool
			lastErr  error
		)

		start := func() {
			wmu.Lock()
			running, finished = true, false
			wmu.Unlock()

			go func() {
				err := inner.Reconcile(ctx, zap.NewNop(), g, ptr)

				wmu.Lock()
				running, finished, lastErr = false, true, err
				wmu.Unlock()
			}()

			synctest.Wait()
		}

		start()

		var steps []string

		now := func() string { return coqZ(int64(time.Since(t0))) }

		payloadN := 0
		tbl := map[string]string{"": "t:"}

		get := func(typ string) resource.Resource {
			r, err := st.Get(ctx, resource.NewMetadata("n1", typ, "a", resource.VersionUndefined))
			if err != nil {
				return nil
			}

			return r
		}

		for _, ch := range c.Sched {
			switch ch.Kind {
			case "step", "fault":
				wmu.Lock()
				isRunning := running
				wmu.Unlock()

				if !isRunning {
					continue
				}

				g.mu.Lock()
				kind, rel := g.pending, g.release
				g.pending, g.release = "", nil
				g.mu.Unlock()

				if rel == nil {
					problem = "worker neither finished nor waiting at a runtime call"

					return
				}

				faultMu.Lock()
				fault = ch.Kind == "fault"
				faultMu.Unlock()

				if ch.Kind == "fault" && kind == "GModify" {
					flags["transform_fault"] = true
				}

				flags["call:"+kind] = true

				steps = append(steps, fmt.Sprintf("(QStep %s %s, %s)", now(), coqBool(ch.Kind == "fault"), kind))

				close(rel)
				synctest.Wait()
			case "restart":
				wmu.Lock()
				canStart := !running
				wmu.Unlock()

				if canStart {
					steps = append(steps, "(QRestart, GNone)")

					start()

					flags["restart"] = true
				}
			case "env":
				var (
					r     resource.Resource
					owner string
				)

				switch ch.Env {
				case "in.create":
					payloadN++
					p := fmt.Sprintf("p%d", payloadN)
					tbl[p] = "t:" + p
					in := newIn("a", p)
					steps = append(steps, fmt.Sprintf("(QEnv %s (OpCreate %s 0%%N), GNone)", now(), coqRes(in, t0)))

					if st.Create(ctx, in) == nil && get("O") != nil {
						flags["recreate_while_output_exists"] = true
					}

					continue
				case "in.update":
					if r = get("T"); r != nil {
						payloadN++
						p := fmt.Sprintf("p%d", payloadN)
						tbl[p] = "t:" + p
						r.(*InRes).SetPayload(p) //nolint:forcetypeassert
					}
				case "in.teardown":
					if r = get("T"); r != nil {
						r.Metadata().SetPhase(resource.PhaseTearingDown)
					}
				case "in.addfin":
					if r = get("T"); r != nil {
						r.Metadata().Finalizers().Add(ch.Fin)
					}
				case "in.remfin":
					if r = get("T"); r != nil {
						r.Metadata().Finalizers().Remove(ch.Fin)

						if ch.Fin == tcName {
							flags["env_removes_controller_finalizer"] = true
						}
					}
				case "in.destroy":
					steps = append(steps, fmt.Sprintf("(QEnv %s (OpDestroy %s 0%%N), GNone)", now(), coqKey("n1", "T", "a")))

					if st.Destroy(ctx, ptr) == nil {
						flags["input_destroyed"] = true
					}

					continue
				case "out.create":
					o := newOut("a", "zz")
					tbl["zz"] = "t:zz"
					steps = append(steps, fmt.Sprintf("(QEnv %s (OpCreate %s %s), GNone)", now(), coqRes(o, t0), coqAtom(ch.Owner)))

					if st.Create(ctx, o, state.WithCreateOwner(ch.Owner)) == nil && ch.Owner != tcName {
						flags["foreign_output"] = true
					}

					continue
				case "out.addfin":
					if r = get("O"); r != nil {
						r.Metadata().Finalizers().Add(ch.Fin)
						owner = r.Metadata().Owner()
						flags["output_finalizer"] = true
					}
				case "out.remfin":
					if r = get("O"); r != nil {
						r.Metadata().Finalizers().Remove(ch.Fin)
						owner = r.Metadata().Owner()
					}
				case "out.teardown":
					if r = get("O"); r != nil {
						r.Metadata().SetPhase(resource.PhaseTearingDown)
						owner = r.Metadata().Owner()
						flags["output_teardown_by_env"] = true
					}
				case "out.destroy":
					if r = get("O"); r != nil {
						owner = r.Metadata().Owner()
						steps = append(steps, fmt.Sprintf("(QEnv %s (OpDestroy %s %s), GNone)", now(), coqKey("n1", "O", "a"), coqAtom(owner)))

						if st.Destroy(ctx, r.Metadata(), state.WithDestroyOwner(owner)) == nil {
							flags["output_destroyed_by_env"] = true
						}
					}

					continue
				}

				if r == nil {
					continue
				}

				flags[ch.Env] = true

				steps = append(steps, fmt.Sprintf("(QEnv %s (OpUpdate %s %s None), GNone)", now(), coqRes(r, t0), coqAtom(owner)))

				st.Update(ctx, r, state.WithUpdateOwner(owner), state.WithExpectedPhaseAny()) //nolint:errcheck
			}
		}

		wmu.Lock()
		fin, lerr := finished, lastErr
		wmu.Unlock()

		final := "None"

		if fin {
			final = "(Some " + coqBool(lerr == nil) + ")"

			if lerr != nil {
				flags["reconcile_error"] = true
			}
		}

		if c.Quiet {
			problem = checkItemConverged(get("T"), get("O"), fin, lerr)
		}

		ins, err1 := coqListOf(ctx, st, "n1", "T", t0)
		outs, err2 := coqListOf(ctx, st, "n1", "O", t0)

		if err1 != nil || err2 != nil {
			t.Fatal(err1, err2)
		}

		var tb []string
		for _, k := range sortedKeys(tbl) {
			tb = append(tb, fmt.Sprintf("(%s, %s)", coqAtom(k), coqAtom(tbl[k])))
		}

		coq = fmt.Sprintf("(%s, %s, %s, %s, %s, %s, %s, %s, %s, %s, %s)",
			coqAtom("n1"), coqAtom("T"), coqAtom("O"), coqAtom(tcName), mode, coqAtom("a"), coqList(tb),
			coqList(steps), final, ins, outs)

		// let a worker still parked at the gate go
		cancel()

		g.mu.Lock()
		g.free = true

		if g.release != nil {
			close(g.release)
			g.release = nil
		}
		g.mu.Unlock()

		<-done
		synctest.Wait()
	})

	return coq, flags, problem
}

func genGatedQ(r *rng) qgCase {
	c := qgCase{Mode: pick(r, []string{"plain", "plain", "until", "while"})}

	envs := []string{"in.create", "in.update", "in.teardown", "in.addfin", "in.remfin", "in.destroy", "out.addfin", "out.remfin", "out.teardown", "out.destroy", "out.create"}

	c.Sched = append(c.Sched, qgChoice{Kind: "env", Env: "in.create"})

	n := 6 + r.intn(30)
	for range n {
		switch x := r.intn(10); {
		case x < 5:
			c.Sched = append(c.Sched, qgChoice{Kind: "step"})
		case x < 6:
			c.Sched = append(c.Sched, qgChoice{Kind: "fault"})
		case x < 7:
			c.Sched = append(c.Sched, qgChoice{Kind: "restart"})
		default:
			e := qgChoice{Kind: "env", Env: pick(r, envs)}

			switch {
			case strings.HasSuffix(e.Env, "fin"):
				e.Fin = pick(r, []string{extFin, extFin, "g", tcName})
			case e.Env == "out.create":
				e.Owner = pick(r, []string{tcName, "o2", ""})
			}

			c.Sched = append(c.Sched, e)
		}
	}

	return c
}

// checkItemConverged is GenCtlConv.converged for item "a" (plain configuration).
func checkItemConverged(in, out resource.Resource, finished bool, lerr error) string {
	if !finished || lerr != nil {
		return fmt.Sprintf("not-converged: the undisturbed reconcile did not end successfully (finished=%v err=%v)", finished, lerr)
	}

	held := out != nil && out.Metadata().Phase() == resource.PhaseTearingDown && !out.Metadata().Finalizers().Empty()
	if held {
		return ""
	}

	switch {
	case in == nil:
		if out != nil {
			return "not-converged: orphaned output without input"
		}
	case in.Metadata().Phase() == resource.PhaseTearingDown:
		if out != nil {
			return "not-converged: output of a torn-down input still exists and is not held by finalizers"
		}

		if in.Metadata().Finalizers().Has(tcName) {
			return "not-converged: torn-down input without output still carries the controller finalizer"
		}
	default:
		if out == nil {
			return "not-converged: running input has no output"
		}

		if out.Metadata().Owner() != tcName || out.Metadata().Phase() != resource.PhaseRunning {
			return "not-converged: output of a running input is not an owned running resource"
		}

		if payloadOf(out) != "t:"+payloadOf(in) {
			return "not-converged: stale output content " + payloadOf(out) + " for input " + payloadOf(in)
		}

		if !in.Metadata().Finalizers().Has(tcName) {
			return "not-converged: running input with output lacks the controller finalizer"
		}
	}

	return ""
}

// genQuietQ: a history respecting the environment assumptions, then an undisturbed reconcile.
func genQuietQ(r *rng) qgCase {
	c := qgCase{Mode: "plain", Quiet: true}

	envs := []string{"in.create", "in.update", "in.update", "in.teardown", "in.addfin", "in.remfin", "in.destroy", "out.addfin", "out.remfin"}

	c.Sched = append(c.Sched, qgChoice{Kind: "env", Env: "in.create"})

	n := 4 + r.intn(30)
	for range n {
		switch x := r.intn(10); {
		case x < 5:
			c.Sched = append(c.Sched, qgChoice{Kind: "step"})
		case x < 6:
			c.Sched = append(c.Sched, qgChoice{Kind: "fault"})
		case x < 7:
			c.Sched = append(c.Sched, qgChoice{Kind: "restart"})
		default:
			e := qgChoice{Kind: "env", Env: pick(r, envs)}
			if strings.HasSuffix(e.Env, "fin") {
				e.Fin = pick(r, []string{extFin, "g"})
			}

			c.Sched = append(c.Sched, e)
		}
	}

	// let the reconcile in flight finish, then one undisturbed reconcile
	for range 6 {
		c.Sched = append(c.Sched, qgChoice{Kind: "step"})
	}

	c.Sched = append(c.Sched, qgChoice{Kind: "restart"})

	for range 6 {
		c.Sched = append(c.Sched, qgChoice{Kind: "step"})
	}

	return c
}
