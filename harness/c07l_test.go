package harness

import (
	"context"
	"encoding/json"
	"errors"
	"fmt"
	"strings"
	"sync"
	"testing"
	"testing/synctest"
	"time"

	"github.com/siderolabs/gen/optional"
	"github.com/siderolabs/gen/xerrors"
	"go.uber.org/zap"

	"github.com/cosi-project/runtime/pkg/controller"
	"github.com/cosi-project/runtime/pkg/controller/generic/transform"
	cruntime "github.com/cosi-project/runtime/pkg/controller/runtime"
	"github.com/cosi-project/runtime/pkg/resource"
	"github.com/cosi-project/runtime/pkg/state"
	"github.com/cosi-project/runtime/pkg/state/impl/inmem"
	"github.com/cosi-project/runtime/pkg/state/impl/namespaced"
)

// Gated runs of the real transform.Controller.Run (input finalizers enabled) over SEVERAL inputs with a many-to-one
// and partial mapping: inputs a and b map to output g, input c to output c, input s is skipped by the mapping.  Every
// runtime call is held at a gate together with the id it is about; store operations of other parties on any of the
// inputs and outputs in every gap.  The recorded schedule (incl. the order of the finalizer releases, which the real
// code takes from a Go map) is replayed on TransformList.l_step by TransformListCheck.lcase_ok.  Monitor on the real
// code: RemoveFinalizer on an input is issued only while no output owned by the controller exists at the id the input
// maps to.

var tlMap = map[string]string{"a": "g", "b": "g", "c": "c"}

type tlChoice struct {
	Kind  string `json:"kind"` // step | fault | restart | env
	Env   string `json:"env,omitempty"`
	ID    string `json:"id,omitempty"`
	Fin   string `json:"fin,omitempty"`
	Owner string `json:"owner,omitempty"`
}

type tlCase struct {
	Sched []tlChoice `json:"sched"`
	// the user's finalizer-removal hook per input id: 1 = fails with an error tagged SkipReconcile, 2 = fails with another error
	Hook map[string]int `json:"hook,omitempty"`
}

func runGatedTransformList(t *testing.T, c tlCase) (coq string, flags map[string]bool, problem string) {
	flags = map[string]bool{}

	synctest.Test(t, func(t *testing.T) {
		ctx, cancel := context.WithCancel(context.Background())
		defer cancel()

		st := state.WrapCore(namespaced.NewState(inmem.Build))
		t0 := time.Now()

		var (
			faultMu sync.Mutex
			fault   bool
		)

		inner := transform.NewController(transform.Settings[*InRes, *OutRes]{
			Name: tcName,
			MapMetadataOptionalFunc: func(in *InRes) optional.Optional[*OutRes] {
				o, ok := tlMap[in.Metadata().ID()]
				if !ok {
					return optional.None[*OutRes]()
				}

				return optional.Some(newOut(o, ""))
			},
			TransformFunc: func(_ context.Context, _ controller.Reader, _ *zap.Logger, in *InRes, o *OutRes) error {
				faultMu.Lock()
				f := fault
				faultMu.Unlock()

				if f {
					return errors.New("transform failure")
				}

				o.SetPayload("t:" + in.Payload())

				return nil
			},
			FinalizerRemovalFunc: func(_ context.Context, _ controller.Reader, _ *zap.Logger, in *InRes) error {
				switch c.Hook[in.Metadata().ID()] {
				case 1:
					return xerrors.NewTaggedf[transform.SkipReconcileTag]("not yet")
				case 2:
					return errors.New("finalizer removal failed")
				}

				return nil
			},
		}, transform.WithInputFinalizers())

		rt, err := cruntime.NewRuntime(st, zap.NewNop())
		if err != nil {
			t.Fatal(err)
		}

		cr := &capR{inner: inner, ready: make(chan struct{})}
		if err := rt.RegisterController(cr); err != nil {
			t.Fatal(err)
		}

		done := make(chan error, 1)

		go func() { done <- rt.Run(ctx) }()

		<-cr.ready

		g := &gatedRR{gatedQR: &gatedQR{inner: cr.rt}, rt: cr.rt, ev: make(chan controller.ReconcileEvent, 1)}

		var (
			wmu     sync.Mutex
			alive   bool
			stopRun context.CancelFunc
		)

		startRun := func() {
			var rctx context.Context

			rctx, stopRun = context.WithCancel(ctx)

			wmu.Lock()
			alive = true
			wmu.Unlock()

			go func() {
				inner.Run(rctx, g, zap.NewNop()) //nolint:errcheck

				wmu.Lock()
				alive = false
				wmu.Unlock()
			}()
		}

		pending := func() (string, string, chan struct{}) {
			g.mu.Lock()
			defer g.mu.Unlock()

			return g.pending, g.target, g.release
		}

		startRun()

		g.ev <- controller.ReconcileEvent{}

		synctest.Wait()

		var steps []string

		inPass, lastOK := true, true
		now := func() string { return coqZ(int64(time.Since(t0))) }
		payloadN := 0
		tbl := map[string]string{"": "t:"}
		forged := map[string]bool{} // output ids another party created under the controller's name

		get := func(typ, id string) resource.Resource {
			r, err := st.Get(ctx, resource.NewMetadata("n1", typ, id, resource.VersionUndefined))
			if err != nil {
				return nil
			}

			return r
		}

		for _, ch := range c.Sched {
			switch ch.Kind {
			case "step", "fault":
				if !inPass {
					continue
				}

				kind, target, rel := pending()
				if rel == nil {
					problem = "a cycle is in progress but no runtime call is pending"

					return
				}

				g.mu.Lock()
				g.pending, g.target, g.release = "", "", nil
				g.mu.Unlock()

				faultMu.Lock()
				fault = ch.Kind == "fault"
				faultMu.Unlock()

				if ch.Kind == "fault" && kind == "GModify" {
					flags["transform_fault"] = true
				}

				if kind == "GRemFin" {
					// monitor (C07, any mapping): the release is issued only while the mapped output is gone
					// (an output created under the controller's name by another party is outside the theorem's hypothesis
					// l_env_ok and not the controller's doing: such ids are left to the correspondence)
					if o := get("O", tlMap[target]); o != nil && o.Metadata().Owner() == tcName && !forged[tlMap[target]] {
						problem = fmt.Sprintf("finalizer-removed-before-output-destroyed: RemoveFinalizer(%s) is issued while output %s owned by the controller still exists (inputs a and b both map to g)", target, tlMap[target])
					}

					flags["release:"+target] = true
				}

				flags["call:"+kind] = true
				steps = append(steps, fmt.Sprintf("(LStep %s %s %s, %s, %s)", now(), coqBool(ch.Kind == "fault"), coqAtom(target), kind, coqAtom(target)))

				close(rel)
				synctest.Wait()

				if _, _, rel2 := pending(); rel2 == nil {
					inPass = false

					wmu.Lock()
					lastOK = alive
					wmu.Unlock()

					if !lastOK {
						flags["cycle_error"] = true
					}
				}
			case "restart":
				if inPass {
					continue
				}

				wmu.Lock()
				a := alive
				wmu.Unlock()

				if !a {
					startRun()
				}

				g.ev <- controller.ReconcileEvent{}

				synctest.Wait()

				inPass = true
				steps = append(steps, "(LRestart, GNone, 0%N)")
				flags["restart"] = true

				if _, _, rel := pending(); rel == nil {
					problem = "a new cycle did not reach its first runtime call"

					return
				}
			case "env":
				var (
					r     resource.Resource
					owner string
				)

				switch ch.Env {
				case "in.create":
					payloadN++
					p := fmt.Sprintf("p%d", payloadN)
					tbl[p] = "t:" + p
					in := newIn(ch.ID, p)
					steps = append(steps, fmt.Sprintf("(LEnv %s (OpCreate %s 0%%N), GNone, 0%%N)", now(), coqRes(in, t0)))

					if st.Create(ctx, in) == nil {
						flags["created:"+ch.ID] = true
					}

					continue
				case "in.update":
					if r = get("T", ch.ID); r != nil {
						payloadN++
						p := fmt.Sprintf("p%d", payloadN)
						tbl[p] = "t:" + p
						r.(*InRes).SetPayload(p) //nolint:forcetypeassert
					}
				case "in.teardown":
					if r = get("T", ch.ID); r != nil {
						r.Metadata().SetPhase(resource.PhaseTearingDown)

						if other := map[string]string{"a": "b", "b": "a"}[ch.ID]; other != "" {
							if o := get("T", other); o != nil && o.Metadata().Phase() == resource.PhaseRunning && get("O", "g") != nil {
								flags["group_member_torn_down_while_other_runs"] = true
							}
						}
					}
				case "in.addfin":
					if r = get("T", ch.ID); r != nil {
						r.Metadata().Finalizers().Add(ch.Fin)
					}
				case "in.remfin":
					if r = get("T", ch.ID); r != nil {
						r.Metadata().Finalizers().Remove(ch.Fin)
					}
				case "in.destroy":
					steps = append(steps, fmt.Sprintf("(LEnv %s (OpDestroy %s 0%%N), GNone, 0%%N)", now(), coqKey("n1", "T", ch.ID)))

					if st.Destroy(ctx, resource.NewMetadata("n1", "T", ch.ID, resource.VersionUndefined)) == nil {
						flags["input_destroyed"] = true
					}

					continue
				case "out.create":
					o := newOut(ch.ID, "zz")
					tbl["zz"] = "t:zz"
					steps = append(steps, fmt.Sprintf("(LEnv %s (OpCreate %s %s), GNone, 0%%N)", now(), coqRes(o, t0), coqAtom(ch.Owner)))

					if st.Create(ctx, o, state.WithCreateOwner(ch.Owner)) == nil {
						flags["foreign_output"] = true

						if ch.Owner == tcName {
							forged[ch.ID] = true
						}
					}

					continue
				case "out.addfin":
					if r = get("O", ch.ID); r != nil {
						r.Metadata().Finalizers().Add(ch.Fin)
						owner = r.Metadata().Owner()
					}
				case "out.remfin":
					if r = get("O", ch.ID); r != nil {
						r.Metadata().Finalizers().Remove(ch.Fin)
						owner = r.Metadata().Owner()
					}
				case "out.teardown":
					if r = get("O", ch.ID); r != nil {
						r.Metadata().SetPhase(resource.PhaseTearingDown)
						owner = r.Metadata().Owner()
					}
				case "out.destroy":
					if r = get("O", ch.ID); r != nil {
						owner = r.Metadata().Owner()
						steps = append(steps, fmt.Sprintf("(LEnv %s (OpDestroy %s %s), GNone, 0%%N)", now(), coqKey("n1", "O", ch.ID), coqAtom(owner)))
						st.Destroy(ctx, r.Metadata(), state.WithDestroyOwner(owner)) //nolint:errcheck
					}

					continue
				}

				if r == nil {
					continue
				}

				flags[ch.Env] = true
				steps = append(steps, fmt.Sprintf("(LEnv %s (OpUpdate %s %s None), GNone, 0%%N)", now(), coqRes(r, t0), coqAtom(owner)))

				st.Update(ctx, r, state.WithUpdateOwner(owner), state.WithExpectedPhaseAny()) //nolint:errcheck
			}

			if problem != "" {
				break
			}
		}

		final := "None"
		if !inPass {
			final = "(Some " + coqBool(lastOK) + ")"
		}

		ins, err1 := coqListOf(ctx, st, "n1", "T", t0)
		outs, err2 := coqListOf(ctx, st, "n1", "O", t0)

		if err1 != nil || err2 != nil {
			t.Fatal(err1, err2)
		}

		var tb, mt, hk []string

		for _, k := range sortedKeys(c.Hook) {
			hk = append(hk, fmt.Sprintf("(%s, %d%%N)", coqAtom(k), c.Hook[k]))
			flags["hook_fails"] = true
		}

		for _, k := range sortedKeys(tbl) {
			tb = append(tb, fmt.Sprintf("(%s, %s)", coqAtom(k), coqAtom(tbl[k])))
		}

		for _, k := range sortedKeys(tlMap) {
			mt = append(mt, fmt.Sprintf("(%s, %s)", coqAtom(k), coqAtom(tlMap[k])))
		}

		coq = fmt.Sprintf("(%s, %s, %s, %s, %s, %s, %s, %s, %s, %s, %s)",
			coqAtom("n1"), coqAtom("T"), coqAtom("O"), coqAtom(tcName), coqList(mt), coqList(hk), coqList(tb), coqList(steps), final, ins, outs)

		cancel()

		if stopRun != nil {
			stopRun()
		}

		g.mu.Lock()
		g.free = true

		if g.release != nil {
			close(g.release)
			g.release = nil
		}
		g.mu.Unlock()

		<-done
		synctest.Wait()
	})

	return coq, flags, problem
}

func genGatedTransformList(r *rng) tlCase {
	var c tlCase

	if r.chance(1, 3) {
		c.Hook = map[string]int{pick(r, []string{"a", "b", "c"}): 1 + r.intn(2)}
	}

	ins := []string{"a", "b", "c", "s"}
	outs := []string{"g", "c"}

	c.Sched = append(c.Sched, tlChoice{Kind: "env", Env: "in.create", ID: "a"}, tlChoice{Kind: "env", Env: "in.create", ID: "b"})

	if r.chance(1, 2) {
		c.Sched = append(c.Sched, tlChoice{Kind: "env", Env: "in.create", ID: pick(r, []string{"c", "s"})})
	}

	for range 10 + r.intn(50) {
		switch x := r.intn(20); {
		case x < 10:
			c.Sched = append(c.Sched, tlChoice{Kind: "step"})
		case x < 11:
			c.Sched = append(c.Sched, tlChoice{Kind: "fault"})
		case x < 13:
			c.Sched = append(c.Sched, tlChoice{Kind: "restart"})
		case x < 15:
			c.Sched = append(c.Sched, tlChoice{Kind: "env", Env: "in.teardown", ID: pick(r, []string{"a", "b", "a", "b", "c", "s"})})
		case x < 17:
			c.Sched = append(c.Sched, tlChoice{Kind: "env", Env: pick(r, []string{"in.create", "in.update", "in.destroy"}), ID: pick(r, ins)})
		case x < 18:
			c.Sched = append(c.Sched, tlChoice{Kind: "env", Env: pick(r, []string{"in.addfin", "in.remfin"}), ID: pick(r, ins), Fin: pick(r, []string{extFin, extFin, tcName})})
		case x < 19:
			c.Sched = append(c.Sched, tlChoice{Kind: "env", Env: pick(r, []string{"out.addfin", "out.remfin"}), ID: pick(r, outs), Fin: "g"})
		default:
			e := tlChoice{Kind: "env", Env: pick(r, []string{"out.teardown", "out.destroy", "out.create"}), ID: pick(r, outs)}
			if e.Env == "out.create" {
				e.Owner = pick(r, []string{tcName, "o2", ""})
			}

			c.Sched = append(c.Sched, e)
		}
	}

	return c
}

// tlCorpus: both group members live with their output; one is torn down while the other runs, a full cycle; then the
// other one too, two full cycles - with one environment operation inserted at every position.
func tlCorpus() []tlCase {
	step := tlChoice{Kind: "step"}

	var base []tlChoice

	base = append(base, tlChoice{Kind: "env", Env: "in.create", ID: "a"}, tlChoice{Kind: "env", Env: "in.create", ID: "b"})
	for range 8 {
		base = append(base, step)
	}

	base = append(base, tlChoice{Kind: "restart"}, tlChoice{Kind: "env", Env: "in.teardown", ID: "a"})
	for range 5 {
		base = append(base, step)
	}

	base = append(base, tlChoice{Kind: "restart"}, tlChoice{Kind: "env", Env: "in.teardown", ID: "b"})
	for range 6 {
		base = append(base, step)
	}

	base = append(base, tlChoice{Kind: "restart"})
	for range 4 {
		base = append(base, step)
	}

	envs := []tlChoice{
		{Kind: "none"},
		{Kind: "env", Env: "in.update", ID: "b"}, {Kind: "env", Env: "in.teardown", ID: "b"}, {Kind: "env", Env: "in.teardown", ID: "a"},
		{Kind: "env", Env: "in.destroy", ID: "a"}, {Kind: "env", Env: "in.create", ID: "c"},
		{Kind: "env", Env: "out.addfin", ID: "g", Fin: "g"}, {Kind: "env", Env: "out.remfin", ID: "g", Fin: "g"},
		{Kind: "env", Env: "out.teardown", ID: "g"}, {Kind: "env", Env: "out.destroy", ID: "g"}, {Kind: "fault"},
	}

	var out []tlCase

	for pos := 2; pos <= len(base); pos++ {
		for _, e := range envs {
			sched := append([]tlChoice(nil), base[:pos]...)
			if e.Kind != "none" {
				sched = append(sched, e)
			} else if pos != 2 {
				continue
			}

			sched = append(sched, base[pos:]...)
			out = append(out, tlCase{Sched: sched})

			if e.Kind == "none" || e.Env == "in.teardown" {
				out = append(out, tlCase{Sched: sched, Hook: map[string]int{"a": 1}}, tlCase{Sched: sched, Hook: map[string]int{"b": 2}})
			}
		}
	}

	return out
}

func gatedTransformListPhase(t *testing.T, prop string) func(rep *Report, dir string) {
	return func(rep *Report, dir string) {
		r := newRng(seed(), prop+"transformlist")
		f := newCoqFile(prop+"_transformlist_cases", []string{"Store", "Helpers", "DepDB", "Access", "GenCtl", "GenCtlCheck", "Transform", "TransformList", "TransformListCheck"}, "lcase", "transform_list_mismatches")

		var jl []any

		todo := tlCorpus()

		for range tier(300, 6000) {
			todo = append(todo, genGatedTransformList(r))
		}

		for _, c := range todo {
			coq, flags, problem := runGatedTransformList(t, c)
			if problem != "" {
				rep.violateKey(len(jl), "gated-transform-list:"+strings.SplitN(problem, ":", 2)[0], problem, map[string]any{"transformlist": c})

				if coq == "" {
					continue
				}
			}

			f.add(coq)
			jl = append(jl, map[string]any{"transformlist": c})

			key, _ := json.Marshal(c)
			rep.count(string(key), len(flags) >= 8)

			for fl := range flags {
				rep.hit("transformlist:" + fl)
			}
		}

		f.finishSharded(t, dir, rep, jl, 300)
	}
}
