package harness

import (
	"context"
	"errors"
	"fmt"
	"strings"
	"sync"
	"testing"
	"testing/synctest"
	"time"

	"go.uber.org/zap"

	"github.com/cosi-project/runtime/pkg/controller"
	"github.com/cosi-project/runtime/pkg/controller/generic/transform"
	cruntime "github.com/cosi-project/runtime/pkg/controller/runtime"
	"github.com/cosi-project/runtime/pkg/resource"
	"github.com/cosi-project/runtime/pkg/state"
	"github.com/cosi-project/runtime/pkg/state/impl/inmem"
	"github.com/cosi-project/runtime/pkg/state/impl/namespaced"
)

// Gated runs of the real transform.Controller.Run (input finalizers enabled) on the real rruntime adapter; the
// recorded schedule is replayed on Transform.t_step by TransformCheck.tcase_ok.

func runGatedTransform(t *testing.T, c qgCase) (coq string, flags map[string]bool, problem string) {
	flags = map[string]bool{}

	synctest.Test(t, func(t *testing.T) {
		ctx, cancel := context.WithCancel(context.Background())
		defer cancel()

		st := state.WrapCore(namespaced.NewState(inmem.Build))
		t0 := time.Now()

		var (
			faultMu sync.Mutex
			fault   bool
		)

		inner := transform.NewController(transform.Settings[*InRes, *OutRes]{
			Name:            tcName,
			MapMetadataFunc: func(in *InRes) *OutRes { return newOut(in.Metadata().ID(), "") },
			TransformFunc: func(_ context.Context, _ controller.Reader, _ *zap.Logger, in *InRes, o *OutRes) error {
				faultMu.Lock()
				f := fault
				faultMu.Unlock()

				if f {
					return errors.New("transform failure")
				}

				o.SetPayload("t:" + in.Payload())

				return nil
			},
			FinalizerRemovalFunc: func(context.Context, controller.Reader, *zap.Logger, *InRes) error { return nil },
		}, transform.WithInputFinalizers())

		rt, err := cruntime.NewRuntime(st, zap.NewNop())
		if err != nil {
			t.Fatal(err)
		}

		cr := &capR{inner: inner, ready: make(chan struct{})}
		if err := rt.RegisterController(cr); err != nil {
			t.Fatal(err)
		}

		done := make(chan error, 1)

		go func() { done <- rt.Run(ctx) }()

		<-cr.ready

		g := &gatedRR{gatedQR: &gatedQR{inner: cr.rt}, rt: cr.rt, ev: make(chan controller.ReconcileEvent, 1)}

		var (
			wmu     sync.Mutex
			alive   bool
			stopRun context.CancelFunc
		)

		startRun := func() {
			var rctx context.Context

			rctx, stopRun = context.WithCancel(ctx)

			wmu.Lock()
			alive = true
			wmu.Unlock()

			go func() {
				inner.Run(rctx, g, zap.NewNop()) //nolint:errcheck

				wmu.Lock()
				alive = false
				wmu.Unlock()
			}()
		}

		pending := func() (string, chan struct{}) {
			g.mu.Lock()
			defer g.mu.Unlock()

			return g.pending, g.release
		}

		startRun()

		g.ev <- controller.ReconcileEvent{}

		synctest.Wait()

		var steps []string

		inPass, lastOK := true, true
		now := func() string { return coqZ(int64(time.Since(t0))) }
		payloadN := 0
		tbl := map[string]string{"": "t:"}

		get := func(typ string) resource.Resource {
			r, err := st.Get(ctx, resource.NewMetadata("n1", typ, "a", resource.VersionUndefined))
			if err != nil {
				return nil
			}

			return r
		}

		for _, ch := range c.Sched {
			switch ch.Kind {
			case "step", "fault":
				if !inPass {
					continue
				}

				kind, rel := pending()
				if rel == nil {
					problem = "a cycle is in progress but no runtime call is pending"

					return
				}

				g.mu.Lock()
				g.pending, g.release = "", nil
				g.mu.Unlock()

				faultMu.Lock()
				fault = ch.Kind == "fault"
				faultMu.Unlock()

				if ch.Kind == "fault" && kind == "GModify" {
					flags["transform_fault"] = true
				}

				flags["call:"+kind] = true
				steps = append(steps, fmt.Sprintf("(TStep %s %s, %s)", now(), coqBool(ch.Kind == "fault"), kind))

				close(rel)
				synctest.Wait()

				if _, rel2 := pending(); rel2 == nil {
					inPass = false

					wmu.Lock()
					lastOK = alive
					wmu.Unlock()

					if !lastOK {
						flags["cycle_error"] = true
					}
				}
			case "restart":
				if inPass {
					continue
				}

				wmu.Lock()
				a := alive
				wmu.Unlock()

				if !a {
					startRun()
				}

				g.ev <- controller.ReconcileEvent{}

				synctest.Wait()

				inPass = true
				steps = append(steps, "(TRestart, GNone)")
				flags["restart"] = true

				if _, rel := pending(); rel == nil {
					problem = "a new cycle did not reach its first runtime call"

					return
				}
			case "env":
				var (
					r     resource.Resource
					owner string
				)

				switch ch.Env {
				case "in.create":
					payloadN++
					p := fmt.Sprintf("p%d", payloadN)
					tbl[p] = "t:" + p
					in := newIn("a", p)
					steps = append(steps, fmt.Sprintf("(TEnv %s (OpCreate %s 0%%N), GNone)", now(), coqRes(in, t0)))

					if st.Create(ctx, in) == nil && get("O") != nil {
						flags["recreate_while_output_exists"] = true
					}

					continue
				case "in.update":
					if r = get("T"); r != nil {
						payloadN++
						p := fmt.Sprintf("p%d", payloadN)
						tbl[p] = "t:" + p
						r.(*InRes).SetPayload(p) //nolint:forcetypeassert
					}
				case "in.teardown":
					if r = get("T"); r != nil {
						r.Metadata().SetPhase(resource.PhaseTearingDown)
					}
				case "in.addfin":
					if r = get("T"); r != nil {
						r.Metadata().Finalizers().Add(ch.Fin)
					}
				case "in.remfin":
					if r = get("T"); r != nil {
						r.Metadata().Finalizers().Remove(ch.Fin)
					}
				case "in.destroy":
					steps = append(steps, fmt.Sprintf("(TEnv %s (OpDestroy %s 0%%N), GNone)", now(), coqKey("n1", "T", "a")))

					if st.Destroy(ctx, resource.NewMetadata("n1", "T", "a", resource.VersionUndefined)) == nil {
						flags["input_destroyed"] = true
					}

					continue
				case "out.create":
					o := newOut("a", "zz")
					tbl["zz"] = "t:zz"
					steps = append(steps, fmt.Sprintf("(TEnv %s (OpCreate %s %s), GNone)", now(), coqRes(o, t0), coqAtom(ch.Owner)))
					st.Create(ctx, o, state.WithCreateOwner(ch.Owner)) //nolint:errcheck

					continue
				case "out.addfin":
					if r = get("O"); r != nil {
						r.Metadata().Finalizers().Add(ch.Fin)
						owner = r.Metadata().Owner()
					}
				case "out.remfin":
					if r = get("O"); r != nil {
						r.Metadata().Finalizers().Remove(ch.Fin)
						owner = r.Metadata().Owner()
					}
				case "out.teardown":
					if r = get("O"); r != nil {
						r.Metadata().SetPhase(resource.PhaseTearingDown)
						owner = r.Metadata().Owner()
					}
				case "out.destroy":
					if r = get("O"); r != nil {
						owner = r.Metadata().Owner()
						steps = append(steps, fmt.Sprintf("(TEnv %s (OpDestroy %s %s), GNone)", now(), coqKey("n1", "O", "a"), coqAtom(owner)))
						st.Destroy(ctx, r.Metadata(), state.WithDestroyOwner(owner)) //nolint:errcheck
					}

					continue
				}

				if r == nil {
					continue
				}

				flags[ch.Env] = true
				steps = append(steps, fmt.Sprintf("(TEnv %s (OpUpdate %s %s None), GNone)", now(), coqRes(r, t0), coqAtom(owner)))

				st.Update(ctx, r, state.WithUpdateOwner(owner), state.WithExpectedPhaseAny()) //nolint:errcheck
			}
		}

		final := "None"
		if !inPass {
			final = "(Some " + coqBool(lastOK) + ")"
		}

		if c.Quiet {
			// C06: after the undisturbed cycles the item is converged; a cycle may legitimately end with the phase
			// conflict error while a foreign finalizer holds a torn-down output
			var lerr error
			if !lastOK {
				if o := get("O"); o == nil || o.Metadata().Phase() != resource.PhaseTearingDown || o.Metadata().Finalizers().Empty() {
					lerr = errors.New("the last undisturbed cycle ended with an error")
				}
			}

			problem = checkItemConverged(get("T"), get("O"), !inPass, lerr)
		}

		ins, err1 := coqListOf(ctx, st, "n1", "T", t0)
		outs, err2 := coqListOf(ctx, st, "n1", "O", t0)

		if err1 != nil || err2 != nil {
			t.Fatal(err1, err2)
		}

		var tb []string
		for _, k := range sortedKeys(tbl) {
			tb = append(tb, fmt.Sprintf("(%s, %s)", coqAtom(k), coqAtom(tbl[k])))
		}

		coq = fmt.Sprintf("(%s, %s, %s, %s, %s, %s, %s, %s, %s, %s)",
			coqAtom("n1"), coqAtom("T"), coqAtom("O"), coqAtom(tcName), coqAtom("a"), coqList(tb), coqList(steps), final, ins, outs)

		cancel()

		if stopRun != nil {
			stopRun()
		}

		g.mu.Lock()
		g.free = true

		if g.release != nil {
			close(g.release)
			g.release = nil
		}
		g.mu.Unlock()

		<-done
		synctest.Wait()
	})

	return coq, flags, problem
}

func gatedTransformPhase(t *testing.T, prop string) func(rep *Report, dir string) {
	return func(rep *Report, dir string) {
		r := newRng(seed(), prop+"transform")
		f := newCoqFile(prop+"_transform_cases", []string{"Store", "Helpers", "DepDB", "Access", "GenCtl", "GenCtlCheck", "Transform", "TransformCheck"}, "tcase", "transform_mismatches")

		var jl []any

		var todo []qgCase

		quiet := prop == "C06"

		for _, c := range gapCorpus(quiet) {
			if c.Mode == "plain" && !quiet {
				// a transform cycle makes up to 5 calls: give the canonical life cycle enough steps
				var sched []qgChoice

				for _, ch := range c.Sched {
					sched = append(sched, ch)
					if ch.Kind == "step" && len(sched)%4 == 0 {
						sched = append(sched, qgChoice{Kind: "step"})
					}
				}

				todo = append(todo, qgCase{Mode: "plain", Sched: sched})
			}
		}

		for range tier(300, 6000) {
			c := genGatedQ(r)
			if quiet {
				c = genQuietQ(r)
			}

			c.Mode = "plain"
			todo = append(todo, c)
		}

		if quiet {
			// let the cycle in flight finish, then two more undisturbed cycles (the first may have to remove a stale generation)
			for i := range todo {
				for range 2 {
					todo[i].Sched = append(todo[i].Sched, qgChoice{Kind: "step"}, qgChoice{Kind: "step"}, qgChoice{Kind: "restart"})
					for range 7 {
						todo[i].Sched = append(todo[i].Sched, qgChoice{Kind: "step"})
					}
				}
			}
		}

		for _, c := range todo {
			coq, flags, problem := runGatedTransform(t, c)
			if problem != "" {
				rep.violateKey(len(jl), "gated-transform:"+strings.SplitN(problem+"  ", " ", 3)[1], problem, map[string]any{"transform": c})

				if coq == "" {
					continue
				}
			}

			f.add(coq)
			jl = append(jl, map[string]any{"transform": c})

			rep.count(fmt.Sprint(c), len(flags) >= 6)

			for fl := range flags {
				rep.hit("transform:" + fl)
			}
		}

		f.finishSharded(t, dir, rep, jl, 400)
	}
}
