package harness

import (
	"context"
	"encoding/json"
	"fmt"
	"os"
	"slices"
	"strings"
	"sync"
	"testing"
	"testing/synctest"
	"time"

	"go.uber.org/zap"

	"github.com/cosi-project/runtime/pkg/controller"
	cruntime "github.com/cosi-project/runtime/pkg/controller/runtime"
	"github.com/cosi-project/runtime/pkg/controller/runtime/options"
	"github.com/cosi-project/runtime/pkg/resource"
	"github.com/cosi-project/runtime/pkg/state"
	"github.com/cosi-project/runtime/pkg/state/impl/inmem"
	"github.com/cosi-project/runtime/pkg/state/impl/namespaced"
)

type accOp struct {
	Op      string  `json:"op"` // get | list | ctx | create | update | modify | teardown | destroy | addfin | remfin
	NS      string  `json:"ns"`
	Typ     string  `json:"typ"`
	ID      string  `json:"id,omitempty"`
	NoOwner bool    `json:"no_owner,omitempty"`
	Owner   *string `json:"owner,omitempty"` // explicit WithOwner for teardown/destroy
	Exp     string  `json:"exp,omitempty"`   // modify: "" default running | any | tearingDown
}

type accCase struct {
	Flavour string    `json:"flavour"` // r | q
	Ins     []inSpec  `json:"ins"`
	Outs    []outSpec `json:"outs"`
	Cached  bool      `json:"cached,omitempty"` // cache kind n1/T
	Op      accOp     `json:"op"`
	// r flavour: inputs declared at registration in addition to Ins and dropped again (UpdateInputs(Ins)) before the
	// operation: the rights they gave must be gone
	Extra []inSpec `json:"extra,omitempty"`
}

type accSetup struct {
	NS, Typ, ID, Owner string
	Fins               []string
	Tearing            bool
}

var accPre = []accSetup{
	{NS: "n1", Typ: "T", ID: "a"},
	{NS: "n1", Typ: "T", ID: "b", Owner: "o2"},
	{NS: "n1", Typ: "O", ID: "a", Owner: "c1"},
	{NS: "n1", Typ: "O", ID: "b", Owner: "o2"},
	{NS: "n2", Typ: "U", ID: "a", Fins: []string{"f1"}},
	{NS: "n2", Typ: "O", ID: "a", Owner: "c1", Tearing: true},
}

var accKinds = [][2]string{{"n1", "T"}, {"n1", "U"}, {"n1", "O"}, {"n2", "T"}, {"n2", "U"}, {"n2", "O"}}

type accProbeR struct {
	ins  []controller.Input
	outs []controller.Output
	mu   sync.Mutex
	rt   controller.Runtime
}

func (p *accProbeR) Name() string                 { return "c1" }
func (p *accProbeR) Inputs() []controller.Input   { return p.ins }
func (p *accProbeR) Outputs() []controller.Output { return p.outs }

func (p *accProbeR) Run(ctx context.Context, r controller.Runtime, _ *zap.Logger) error {
	p.mu.Lock()
	p.rt = r
	p.mu.Unlock()

	<-ctx.Done()

	return nil
}

type accProbeQ struct {
	set controller.QSettings
	mu  sync.Mutex
	rt  controller.QRuntime
}

func (p *accProbeQ) Name() string                   { return "c1" }
func (p *accProbeQ) Settings() controller.QSettings { return p.set }

func (p *accProbeQ) Reconcile(context.Context, *zap.Logger, controller.QRuntime, resource.Pointer) error {
	return nil
}

func (p *accProbeQ) MapInput(context.Context, *zap.Logger, controller.QRuntime, controller.ReducedResourceMetadata) ([]resource.Pointer, error) {
	return nil, nil
}

// the subset of the adapter API both flavours share
type accAPI interface {
	controller.ReaderWriter
}

func runAccessCase(t *testing.T, c accCase) (coq string, problems []string, denied bool) {
	synctest.Test(t, func(t *testing.T) {
		ctx, cancel := context.WithCancel(context.Background())
		defer cancel()

		st := state.WrapCore(namespaced.NewState(inmem.Build))
		t0 := time.Now()

		var setup []string

		for _, s := range accPre {
			time.Sleep(time.Millisecond)

			r := newRes(s.NS, s.Typ, s.ID, "p0")
			r.Metadata().SetCreated(t0)
			r.Metadata().SetUpdated(t0)

			for _, f := range s.Fins {
				r.Metadata().Finalizers().Add(f)
			}

			if s.Tearing {
				r.Metadata().SetPhase(resource.PhaseTearingDown)
			}

			setup = append(setup, fmt.Sprintf("(%s, OpCreate %s %s)", coqZ(int64(time.Since(t0))), coqRes(r, t0), coqAtom(s.Owner)))

			if err := st.Create(ctx, r, state.WithCreateOwner(s.Owner)); err != nil {
				t.Fatal(err)
			}
		}

		var opts []options.Option
		if c.Cached {
			opts = append(opts, options.WithCachedResource("n1", "T"))
		}

		rt, err := cruntime.NewRuntime(st, zap.NewNop(), opts...)
		if err != nil {
			t.Fatal(err)
		}

		ins := make([]controller.Input, len(c.Ins))
		cins := make([]string, len(c.Ins))

		for i, in := range c.Ins {
			ins[i] = in.input()
			cins[i] = in.coq()
		}

		outs := make([]controller.Output, len(c.Outs))
		couts := make([]string, len(c.Outs))

		for i, o := range c.Outs {
			outs[i] = controller.Output{Type: o.Typ, Kind: o.Kind}
			couts[i] = o.coq()
		}

		var api accAPI

		regIns := append([]controller.Input(nil), ins...)
		for _, in := range c.Extra {
			regIns = append(regIns, in.input())
		}

		pr := &accProbeR{ins: regIns, outs: outs}
		pq := &accProbeQ{}

		if c.Flavour == "r" {
			if err := rt.RegisterController(pr); err != nil {
				t.Fatalf("register: %v", err)
			}
		} else {
			pq.set = controller.QSettings{Inputs: ins, Outputs: outs, RunHook: func(ctx context.Context, _ *zap.Logger, r controller.QRuntime) error {
				pq.mu.Lock()
				pq.rt = r
				pq.mu.Unlock()

				<-ctx.Done()

				return nil
			}}

			if err := rt.RegisterQController(pq); err != nil {
				t.Fatalf("register: %v", err)
			}
		}

		done := make(chan error, 1)

		go func() { done <- rt.Run(ctx) }()

		synctest.Wait()

		if c.Flavour == "r" {
			pr.mu.Lock()
			api = pr.rt
			pr.mu.Unlock()
		} else {
			pq.mu.Lock()
			api = pq.rt
			pq.mu.Unlock()
		}

		if api == nil {
			t.Fatal("probe did not receive its runtime")
		}

		if c.Flavour == "r" {
			pr.mu.Lock()
			pr.ins = ins
			r := pr.rt
			pr.mu.Unlock()

			// the declaration is passed in a buffer the controller goes on using: what it writes there afterwards is not a
			// declaration (the access lists follow accepted UpdateInputs calls only)
			buf := slices.Clone(ins)

			if err := r.UpdateInputs(buf); err != nil {
				t.Fatalf("UpdateInputs: %v", err)
			}

			for i := range buf {
				buf[i] = controller.Input{Namespace: c.Op.NS, Type: c.Op.Typ, Kind: controller.InputStrong}
			}

			synctest.Wait()
		}

		time.Sleep(time.Millisecond)

		now := int64(time.Since(t0))
		o := c.Op
		ptr := resource.NewMetadata(o.NS, o.Typ, o.ID, resource.VersionUndefined)
		key := coqKey(o.NS, o.Typ, o.ID)

		var (
			cop, obs string
			opErr    error
		)

		errObs := func(err error) string {
			return fmt.Sprintf("(OaErr (%s, %s, %s, %s))", coqBool(state.IsNotFoundError(err)), coqBool(state.IsOwnerConflictError(err)),
				coqBool(state.IsPhaseConflictError(err)), coqBool(state.IsConflictError(err)))
		}

		delOpts := func() ([]controller.DeleteOption, string) {
			if o.Owner == nil {
				return nil, "None"
			}

			return []controller.DeleteOption{controller.WithOwner(*o.Owner)}, "(Some " + coqAtom(*o.Owner) + ")"
		}

		switch o.Op {
		case "get":
			cop = "(AGet " + key + ")"

			r, err := api.Get(ctx, ptr)
			if opErr = err; err == nil {
				obs = "(OaRes " + coqRes(r, t0) + ")"
			}
		case "list":
			cop = fmt.Sprintf("(AList %s %s)", coqAtom(o.NS), coqAtom(o.Typ))

			l, err := api.List(ctx, resource.NewMetadata(o.NS, o.Typ, "", resource.VersionUndefined))
			if opErr = err; err == nil {
				items := make([]string, len(l.Items))
				for i, r := range l.Items {
					items[i] = coqRes(r, t0)
				}

				obs = "(OaList " + coqList(items) + ")"
			}
		case "ctx":
			cop = "(ACtx " + key + ")"

			_, err := api.ContextWithTeardown(ctx, ptr)
			if opErr = err; err == nil {
				obs = "OaOk"
			}
		case "create":
			r := newRes(o.NS, o.Typ, o.ID, "p5")
			r.Metadata().SetCreated(t0)
			r.Metadata().SetUpdated(t0)
			cop = fmt.Sprintf("(ACreate %s %s)", coqRes(r, t0), coqBool(o.NoOwner))

			var copts []controller.CreateOption
			if o.NoOwner {
				copts = append(copts, controller.WithCreateNoOwner())
			}

			if opErr = api.Create(ctx, r, copts...); opErr == nil {
				obs = "OaOk"
			}
		case "update":
			// start from the current object (if any) so that the version matches; change the payload
			var r resource.Resource

			cur, err := st.Get(ctx, ptr)
			if err == nil {
				r = cur
				r.(*Res).SetPayload("p6") //nolint:forcetypeassert
			} else {
				nr := newRes(o.NS, o.Typ, o.ID, "p6")
				nr.Metadata().SetCreated(t0)
				nr.Metadata().SetUpdated(t0)
				r = nr
			}

			cop = fmt.Sprintf("(AUpdate %s)", coqRes(r, t0))

			if opErr = api.Update(ctx, r); opErr == nil {
				obs = "OaOk"
			}
		case "updforged":
			// an object built from scratch that claims this controller as its owner and carries the victim's current version
			nr := newRes(o.NS, o.Typ, o.ID, "p6")
			nr.Metadata().SetCreated(t0)
			nr.Metadata().SetUpdated(t0)

			if cur, err := st.Get(ctx, ptr); err == nil {
				nr.Metadata().SetVersion(cur.Metadata().Version())
				nr.Metadata().SetCreated(cur.Metadata().Created())
			}

			nr.Metadata().SetOwner("c1") //nolint:errcheck

			cop = fmt.Sprintf("(AUpdate %s)", coqRes(nr, t0))

			if opErr = api.Update(ctx, nr); opErr == nil {
				obs = "OaOk"
			}
		case "modify":
			empty := newRes(o.NS, o.Typ, o.ID, "e0")
			empty.Metadata().SetCreated(t0)
			empty.Metadata().SetUpdated(t0)

			var (
				mopts []controller.ModifyOption
				cexp  = "(Some false)"
			)

			switch o.Exp {
			case "any":
				mopts = append(mopts, controller.WithExpectedPhaseAny())
				cexp = "None"
			case "tearingDown":
				mopts = append(mopts, controller.WithExpectedPhase(resource.PhaseTearingDown))
				cexp = "(Some true)"
			}

			if o.NoOwner {
				mopts = append(mopts, controller.WithModifyNoOwner())
			}

			cop = fmt.Sprintf("(AModify %s (MSetSpec %s) %s %s)", coqRes(empty, t0), coqAtom("p7"), cexp, coqBool(o.NoOwner))

			r, err := api.ModifyWithResult(ctx, empty, func(r resource.Resource) error {
				r.(*Res).SetPayload("p7") //nolint:forcetypeassert

				return nil
			}, mopts...)
			if opErr = err; err == nil {
				obs = "(OaRes " + coqRes(r, t0) + ")"
			}
		case "teardown":
			dopts, cow := delOpts()
			cop = fmt.Sprintf("(ATeardown %s %s)", key, cow)

			ready, err := api.Teardown(ctx, ptr, dopts...)
			if opErr = err; err == nil {
				obs = "(OaReady " + coqBool(ready) + ")"
			}
		case "destroy":
			dopts, cow := delOpts()
			cop = fmt.Sprintf("(ADestroy %s %s)", key, cow)

			if opErr = api.Destroy(ctx, ptr, dopts...); opErr == nil {
				obs = "OaOk"
			}
		case "addfin":
			// two finalizers in one call, one of which some resources already carry (partial overlap)
			cop = fmt.Sprintf("(AAddFin %s [%s; %s])", key, coqAtom("f9"), coqAtom("f1"))

			if opErr = api.AddFinalizer(ctx, ptr, "f9", "f1"); opErr == nil {
				obs = "OaOk"
			}
		case "remfin":
			cop = fmt.Sprintf("(ARemFin %s [%s])", key, coqAtom("f1"))

			if opErr = api.RemoveFinalizer(ctx, ptr, "f1"); opErr == nil {
				obs = "OaOk"
			}
		}

		if opErr != nil {
			obs = errObs(opErr)
		}

		synctest.Wait()

		var listings []string

		for _, k := range accKinds {
			l, err := coqListOf(ctx, st, k[0], k[1], t0)
			if err != nil {
				t.Fatal(err)
			}

			listings = append(listings, fmt.Sprintf("(%s, %s, %s)", coqAtom(k[0]), coqAtom(k[1]), l))
		}

		// Go-side monitors (independent of the model): writes only to declared output types; finalizers only on
		// strong / q-primary / q-mapped inputs; created resources carry the controller's name
		isOut := false
		for _, out := range c.Outs {
			if out.Typ == o.Typ {
				isOut = true
			}
		}

		switch o.Op {
		case "create", "update", "modify", "teardown", "destroy":
			if opErr == nil && !isOut {
				problems = append(problems, fmt.Sprintf("write-not-output: %s on type %q succeeded but %q is not a declared output", o.Op, o.Typ, o.Typ))
			}

			if !isOut {
				denied = true
			}
		case "addfin", "remfin":
			allowed := false

			for _, in := range c.Ins {
				if in.NS == o.NS && in.Typ == o.Typ && (in.Kind == 1 || in.Kind == 3 || in.Kind == 4) && (in.ID == nil || *in.ID == o.ID) {
					allowed = true
				}
			}

			if opErr == nil && !allowed {
				problems = append(problems, fmt.Sprintf("finalizer-not-strong: %s on %s/%s/%s succeeded without a strong/primary/mapped input", o.Op, o.NS, o.Typ, o.ID))
			}

			if !allowed {
				denied = true
			}
		case "get", "list", "ctx":
			allowed := isOut

			for _, in := range c.Ins {
				if in.NS == o.NS && in.Typ == o.Typ && (in.ID == nil || (o.Op != "list" && *in.ID == o.ID)) {
					allowed = true
				}
			}

			if opErr == nil && !allowed {
				problems = append(problems, fmt.Sprintf("read-not-declared: %s on %s/%s/%s succeeded without a matching input or output", o.Op, o.NS, o.Typ, o.ID))
			}

			if !allowed {
				denied = true
			}
		}

		if (o.Op == "create") && opErr == nil && !o.NoOwner {
			if r, err := st.Get(ctx, ptr); err == nil && r.Metadata().Owner() != "c1" {
				problems = append(problems, fmt.Sprintf("owner-not-stamped: created resource has owner %q", r.Metadata().Owner()))
			}
		}

		coq = fmt.Sprintf("(mkCtrl %s %s %s, %s, (%s, %s), %s, %s)", coqAtom("c1"), coqList(cins), coqList(couts),
			coqList(setup), coqZ(now), cop, obs, coqList(listings))

		cancel()
		<-done
		synctest.Wait()
	})

	return coq, problems, denied
}

func genAccessCases(r *rng) []accCase {
	type decl struct {
		ins  []inSpec
		outs []outSpec
	}

	var cases []accCase

	for _, flavour := range []string{"r", "q"} {
		kinds := []int{0, 1, 2}
		if flavour == "q" {
			kinds = []int{3, 4, 5}
		}

		var decls []decl

		outSets := [][]outSpec{nil, {{Typ: "O", Kind: 0}}, {{Typ: "O", Kind: 1}, {Typ: "U", Kind: 1}}}

		for _, outs := range outSets {
			decls = append(decls, decl{outs: outs})

			for _, k := range kinds {
				decls = append(decls,
					decl{ins: []inSpec{{NS: "n1", Typ: "T", Kind: k}}, outs: outs},
					decl{ins: []inSpec{{NS: "n1", Typ: "T", ID: sp("a"), Kind: k}}, outs: outs},
					decl{ins: []inSpec{{NS: "n2", Typ: "U", Kind: k}, {NS: "n1", Typ: "T", ID: sp("b"), Kind: kinds[0]}}, outs: outs},
				)
			}
		}

		// two inputs on the same (namespace, type): one for the whole kind, one for a single id, of different strength -
		// the finalizer right must come from an input that covers the id AND is strong, not from two different inputs
		weak, strong := kinds[0], kinds[1]
		if flavour == "q" {
			weak, strong = kinds[2], kinds[1]
		}

		for _, outs := range outSets[:2] {
			decls = append(decls,
				decl{ins: []inSpec{{NS: "n1", Typ: "T", Kind: weak}, {NS: "n1", Typ: "T", ID: sp("b"), Kind: strong}}, outs: outs},
				decl{ins: []inSpec{{NS: "n1", Typ: "T", ID: sp("a"), Kind: weak}, {NS: "n1", Typ: "T", ID: sp("b"), Kind: strong}}, outs: outs},
			)
		}

		if !thorough() { // quick: a sample of the declaration sets, all operations
			var sel []decl
			for i, d := range decls {
				if i%3 == int(seed()%3) || len(d.ins) == 2 {
					sel = append(sel, d)
				}
			}

			decls = sel
		}

		other := "o2"
		empty := ""

		var ops []accOp

		targets := [][3]string{{"n1", "T", "a"}, {"n1", "T", "b"}, {"n1", "O", "a"}, {"n1", "O", "b"}, {"n2", "U", "a"}, {"n2", "O", "a"}, {"n1", "O", "c"}, {"n2", "T", "c"}}
		for _, tg := range targets {
			base := accOp{NS: tg[0], Typ: tg[1], ID: tg[2]}

			for _, op := range []string{"get", "ctx", "create", "update", "updforged", "addfin", "remfin"} {
				o := base
				o.Op = op
				ops = append(ops, o)
			}

			o := base
			o.Op, o.NoOwner = "create", true
			ops = append(ops, o)

			for _, exp := range []string{"", "any"} {
				o := base
				o.Op, o.Exp = "modify", exp
				ops = append(ops, o)
			}

			o = base
			o.Op, o.NoOwner, o.Exp = "modify", true, "any"
			ops = append(ops, o)

			for _, ow := range []*string{nil, &other, &empty} {
				for _, op := range []string{"teardown", "destroy"} {
					o := base
					o.Op, o.Owner = op, ow
					ops = append(ops, o)
				}
			}
		}

		for _, k := range accKinds {
			ops = append(ops, accOp{Op: "list", NS: k[0], Typ: k[1]})
		}

		for _, d := range decls {
			for _, op := range ops {
				cases = append(cases, accCase{Flavour: flavour, Ins: d.ins, Outs: d.outs, Op: op, Cached: r.chance(1, 3)})
			}
		}

		// inputs that were declared and then dropped: reads, contexts and finalizer changes on them must be refused again
		if flavour == "r" {
			for _, base := range [][]inSpec{{{NS: "n2", Typ: "U", Kind: 0}}, {{NS: "n1", Typ: "T", ID: sp("a"), Kind: 1}}} {
				for _, extra := range [][]inSpec{{{NS: "n1", Typ: "T", Kind: 1}}, {{NS: "n1", Typ: "T", ID: sp("b"), Kind: 1}, {NS: "n2", Typ: "O", Kind: 0}}} {
					for _, op := range ops {
						if op.Op == "get" || op.Op == "list" || op.Op == "ctx" || op.Op == "addfin" || op.Op == "remfin" {
							cases = append(cases, accCase{Flavour: flavour, Ins: base, Extra: extra, Outs: outSets[1], Op: op, Cached: r.chance(1, 3)})
						}
					}
				}
			}
		}
	}

	return cases
}

func TestC08(t *testing.T) {
	dir := outDir(t)
	rep := newReport("C08", "matrix through the real rruntime/qruntime adapters (probe Controller / QController registered with a real Runtime): declaration sets (inputs by kind and by id of every input kind, exclusive/shared outputs) x "+
		"operations (get, list, ctx, create with/without no-owner, update, modify with expected-phase/no-owner options, teardown/destroy with and without explicit owner, add/remove finalizer) x 8 targets owned by the controller, another owner or nobody, "+
		"kind n1/T cached or not; compared: result class and the listing of all 6 kinds afterwards; plus the output tracker: StartTrackingOutputs / CleanupOutputs over own, foreign, unowned, touched and finalizer-holding resources of the output kind, cached or not, compared with Tracker.cleanup; non-trivial = the operation must be refused by confinement; distinct by case")

	var cases []accCase

	if rp := os.Getenv("VERIF_REPLAY"); rp != "" {
		b, err := os.ReadFile(rp)
		if err != nil {
			t.Fatal(err)
		}

		var rf struct {
			Case accCase `json:"case"`
		}

		if err := json.Unmarshal(b, &rf); err != nil {
			t.Fatal(err)
		}

		cases = append(cases, rf.Case)
	} else {
		cases = genAccessCases(newRng(seed(), "C08"))
		rep.Exhaustive = thorough()
	}

	const shard = 350

	var (
		f  *coqFile
		jl []any
		n  int
	)

	flush := func() {
		if f != nil {
			f.finishSharded(t, dir, rep, jl, 400)
			f, jl = nil, nil
		}
	}

	for i, c := range cases {
		coq, problems, denied := runAccessCase(t, c)

		if f == nil {
			f = newCoqFile(fmt.Sprintf("C08_access_%d", n/shard), []string{"Store", "StoreCheck", "Helpers", "DepDB", "Access", "AccessCheck"}, "acase", "access_mismatches")
		}

		f.add(coq)
		jl = append(jl, map[string]any{"case": c})
		n++

		if n%shard == 0 {
			flush()
		}

		key, _ := json.Marshal(c)
		rep.count(string(key), denied)
		rep.hit(c.Flavour + ":" + c.Op.Op)

		if i%997 == 3 {
			rep.sample(map[string]any{"case": c, "observed": coq[:min(len(coq), 500)]})
		}

		for _, p := range problems {
			rep.violateKey(i, p[:min(len(p), 24)], p, map[string]any{"case": c})
		}
	}

	// ---- the runtime acting on the controller's behalf: CleanupOutputs of the output tracker may destroy only untouched
	// resources that THIS controller owns - never one owned by somebody else or by nobody ----
	if os.Getenv("VERIF_REPLAY") == "" {
		tf := newCoqFile("C08_tracker_cases", []string{"Store", "StoreCheck", "Tracker", "TrackerCheck"}, "tcase", "tracker_mismatches")

		var tjl []any

		defer func() { tf.finishSharded(t, dir, rep, tjl, 400); rep.write(t, dir) }()

		for _, cached := range []bool{false, true} {
			for _, touch := range []bool{false, true} {
				coq, problems := runTrackerCase(t, cached, touch)
				tf.add(coq)
				tjl = append(tjl, map[string]any{"tracker": map[string]any{"cached": cached, "touch": touch}})

				for _, p := range problems {
					rep.violateKey(len(cases), strings.SplitN(p, ":", 2)[0], p, map[string]any{"tracker": map[string]any{"cached": cached, "touch": touch}})
				}

				rep.count(fmt.Sprint("tracker", cached, touch), true)
				rep.hit("output_tracker")
			}
		}
	}

	rep.CorrIsSpec = true
	flush()
	rep.write(t, dir)
}

type trackerProbe struct {
	touch    bool
	done     chan error
	cleanErr error
	// what the store held when the clean-up started (after the touch), for the model
	snapshot func() string
	before   string
}

func (p *trackerProbe) Name() string               { return "c1" }
func (p *trackerProbe) Inputs() []controller.Input { return nil }
func (p *trackerProbe) Outputs() []controller.Output {
	return []controller.Output{{Type: "O", Kind: controller.OutputShared}}
}

func (p *trackerProbe) Run(ctx context.Context, r controller.Runtime, _ *zap.Logger) error {
	r.StartTrackingOutputs()

	if p.touch {
		// the controller still wants O/keep: touching it keeps it out of the clean-up
		if err := r.Modify(ctx, newRes("n1", "O", "keep", ""), func(x resource.Resource) error {
			x.(*Res).SetPayload("kept") //nolint:forcetypeassert

			return nil
		}); err != nil {
			p.done <- err

			return nil
		}
	}

	p.before = p.snapshot()
	p.cleanErr = r.CleanupOutputs(ctx, resource.NewMetadata("n1", "O", "", resource.VersionUndefined))
	p.done <- nil

	<-ctx.Done()

	return nil
}

func runTrackerCase(t *testing.T, cached, touch bool) (coq string, problems []string) {
	synctest.Test(t, func(t *testing.T) {
		ctx, cancel := context.WithCancel(context.Background())
		defer cancel()

		st := state.WrapCore(namespaced.NewState(inmem.Build))

		for _, s := range []accSetup{
			{NS: "n1", Typ: "O", ID: "stale", Owner: "c1"}, {NS: "n1", Typ: "O", ID: "keep", Owner: "c1"},
			{NS: "n1", Typ: "O", ID: "user"}, {NS: "n1", Typ: "O", ID: "forgn", Owner: "o2"},
			{NS: "n1", Typ: "O", ID: "ufin", Fins: []string{"f1"}}, {NS: "n2", Typ: "O", ID: "other", Owner: "c1"},
		} {
			r := newRes(s.NS, s.Typ, s.ID, "p0")
			for _, f := range s.Fins {
				r.Metadata().Finalizers().Add(f)
			}

			if err := st.Create(ctx, r, state.WithCreateOwner(s.Owner)); err != nil {
				t.Fatal(err)
			}
		}

		var opts []options.Option
		if cached {
			opts = append(opts, options.WithCachedResource("n1", "O"))
		}

		rt, err := cruntime.NewRuntime(st, zap.NewNop(), opts...)
		if err != nil {
			t.Fatal(err)
		}

		t0 := time.Now()

		listing := func(ns string) string {
			l, err := st.List(ctx, resource.NewMetadata(ns, "O", "", resource.VersionUndefined))
			if err != nil {
				t.Fatal(err)
			}

			rendered := make([]string, len(l.Items))
			for i, r := range l.Items {
				rendered[i] = coqRes(r, t0)
			}

			return coqList(rendered)
		}

		p := &trackerProbe{touch: touch, done: make(chan error, 1)}
		p.snapshot = func() string {
			// the whole store as one list (order is irrelevant to the model)
			var all []string

			for _, ns := range []string{"n1", "n2"} {
				l, err := st.List(ctx, resource.NewMetadata(ns, "O", "", resource.VersionUndefined))
				if err != nil {
					panic(err) // not the test goroutine
				}

				for _, r := range l.Items {
					all = append(all, coqRes(r, t0))
				}
			}

			return coqList(all)
		}

		if err := rt.RegisterController(p); err != nil {
			t.Fatal(err)
		}

		done := make(chan error, 1)

		go func() { done <- rt.Run(ctx) }()

		if err := <-p.done; err != nil {
			t.Fatalf("tracker probe: %v", err)
		}

		synctest.Wait()

		exists := func(ns, id string) bool {
			_, err := st.Get(ctx, resource.NewMetadata(ns, "O", id, resource.VersionUndefined))

			return err == nil
		}

		for _, id := range []string{"user", "forgn", "ufin"} {
			if !exists("n1", id) {
				problems = append(problems, fmt.Sprintf("tracker-destroyed-foreign: CleanupOutputs destroyed O/%s, which this controller does not own (cached=%v)", id, cached))
			}
		}

		if !exists("n2", "other") {
			problems = append(problems, "tracker-destroyed-other-namespace: CleanupOutputs of n1/O destroyed a resource of another namespace")
		}

		if touch && !exists("n1", "keep") {
			problems = append(problems, "tracker-destroyed-touched: CleanupOutputs destroyed an output the controller had touched since StartTrackingOutputs")
		}

		touched := "[]"
		if touch {
			touched = coqList([]string{coqAtom("keep")})
		}

		coq = fmt.Sprintf("(%s, (%s, %s), %s, %s, %s, [((%s, %s), %s); ((%s, %s), %s)])", coqAtom("c1"), coqAtom("n1"), coqAtom("O"), touched, p.before, coqBool(p.cleanErr == nil),
			coqAtom("n1"), coqAtom("O"), listing("n1"), coqAtom("n2"), coqAtom("O"), listing("n2"))

		if p.cleanErr == nil && exists("n1", "stale") {
			problems = append(problems, "tracker-kept-stale: CleanupOutputs returned nil but the controller's untouched output O/stale is still there")
		}

		cancel()
		<-done
		synctest.Wait()
	})

	return coq, problems
}
