package harness

import (
	"context"
	"encoding/json"
	"errors"
	"fmt"
	"os"
	"strings"
	"testing"
	"testing/synctest"
	"time"

	"go.uber.org/zap"

	"github.com/cosi-project/runtime/pkg/controller"
	"github.com/cosi-project/runtime/pkg/controller/generic/qtransform"
	cruntime "github.com/cosi-project/runtime/pkg/controller/runtime"
	"github.com/cosi-project/runtime/pkg/resource"
	"github.com/cosi-project/runtime/pkg/state"
	"github.com/cosi-project/runtime/pkg/state/impl/inmem"
	"github.com/cosi-project/runtime/pkg/state/impl/namespaced"
	"github.com/siderolabs/gen/xerrors"
)

// ---- part 1: the queue itself, driven event by event on a virtual clock -----------

type qAction struct {
	Op string `json:"op"` // put | get | release | requeue | sleep | stale_release
	K  int    `json:"k,omitempty"`
	V  int    `json:"v,omitempty"`
	D  int64  `json:"d,omitempty"` // sleep duration / requeue offset from now (ns, may be negative)
}

type qObs struct {
	ev  string // Coq qevent
	out string // Coq option (K*V)
	len int64
}

// runQueueCase executes one action string against the real queue inside a synctest bubble.
// Returns the Coq rendering of the observed trace and monitor verdicts.
func runQueueCase(t *testing.T, actions []qAction) (obs []qObs, flags map[string]bool, problems []string) {
	flags = map[string]bool{}

	synctest.Test(t, func(t *testing.T) {
		ctx, cancel := context.WithCancel(context.Background())
		defer cancel()

		q := cruntime.VerifNewQueue[int, int]()

		go q.Run(ctx)

		synctest.Wait()

		start := time.Now()
		now := func() int64 { return int64(time.Since(start)) }

		held := map[int]*cruntime.VerifQueueItem[int, int]{}
		stale := map[int]*cruntime.VerifQueueItem[int, int]{} // already released/requeued: a further Release must be a no-op
		// Go-side monitor state (independent of the Coq model)
		fresh := map[int]int{}         // latest Put since last delivery
		req := map[int][2]int64{}      // requeued (value, notBefore) since last delivery
		pendingCount := func() int64 { // pending + held-back, as the property words it
			n := int64(0)

			for k := range fresh {
				_ = k
				n++
			}

			for k := range req {
				if _, ok := fresh[k]; !ok {
					n++
				}
			}

			return n
		}

		for _, a := range actions {
			switch a.Op {
			case "put":
				q.Put(a.K, a.V)
				synctest.Wait()

				if _, ok := held[a.K]; ok {
					flags["put_while_held"] = true
				}

				if _, ok := fresh[a.K]; ok {
					flags["coalesce"] = true
				}

				fresh[a.K] = a.V
				obs = append(obs, qObs{fmt.Sprintf("EPut %s %s %s", coqN(uint64(a.K)), coqN(uint64(a.V)), coqZ(now())), "None", q.Len()})
			case "get":
				synctest.Wait()

				var out string

				select {
				case it := <-q.Get():
					k, v := it.Get()
					out = fmt.Sprintf("(Some (%s, %s))", coqN(uint64(k)), coqN(uint64(v)))

					if _, dup := held[k]; dup {
						problems = append(problems, fmt.Sprintf("exclusion: key %d handed out while held", k))
					}

					if fv, ok := fresh[k]; ok {
						if fv != v {
							problems = append(problems, fmt.Sprintf("coalescing: key %d delivered value %d, latest Put was %d", k, v, fv))
						}

						if _, wasReq := req[k]; wasReq {
							flags["fresh_overrides_requeue"] = true
						}
					} else if rq, ok := req[k]; ok {
						flags["requeue_delivered"] = true

						if int64(v) != rq[0] {
							problems = append(problems, fmt.Sprintf("requeue: key %d delivered value %d, requeued %d", k, v, rq[0]))
						}

						if now() < rq[1] {
							problems = append(problems, fmt.Sprintf("backoff: key %d delivered at %d before requested %d", k, now(), rq[1]))
						}
					} else {
						problems = append(problems, fmt.Sprintf("spurious: key %d delivered with no pending notification or requeue", k))
					}

					delete(fresh, k)
					delete(req, k)
					held[k] = it
				default:
					out = "None"
					// progress: nothing handed out => every undelivered notification belongs to a held item,
					// and every requeue not yet due
					for k := range fresh {
						if _, ok := held[k]; !ok {
							problems = append(problems, fmt.Sprintf("loss: key %d has an undelivered notification, is not held, but Get blocks", k))
						}
					}

					for k, rq := range req {
						if _, ok := held[k]; !ok && rq[1] <= now() {
							if _, f := fresh[k]; !f {
								problems = append(problems, fmt.Sprintf("loss: key %d requeue due at %d not delivered at %d", k, rq[1], now()))
							}
						}
					}
				}

				synctest.Wait()
				obs = append(obs, qObs{fmt.Sprintf("EGet %s", coqZ(now())), out, q.Len()})
			case "release", "requeue":
				it, ok := held[a.K]
				if !ok {
					continue
				}

				_, v := it.Get()
				delete(held, a.K)
				stale[a.K] = it

				after := "None"

				if a.Op == "requeue" {
					at := now() + a.D
					it.Requeue(start.Add(time.Duration(at)))
					after = "(Some " + coqZ(at) + ")"
					req[a.K] = [2]int64{int64(v), at}
				} else {
					it.Release()
				}

				if _, ok := fresh[a.K]; ok {
					flags["release_with_parked"] = true
				}

				synctest.Wait()
				obs = append(obs, qObs{fmt.Sprintf("ERelease %s %s %s %s", coqN(uint64(a.K)), coqN(uint64(v)), after, coqZ(now())), "None", q.Len()})
			case "stale_release":
				// runReconcile's `defer item.Release()` after an explicit Requeue: documented as a no-op
				if it, ok := stale[a.K]; ok {
					it.Release()
					synctest.Wait()

					flags["release_after_requeue"] = true
				}

				continue
			case "sleep":
				time.Sleep(time.Duration(a.D))
				synctest.Wait()

				continue
			}

			if got, want := q.Len(), pendingCount(); got != want {
				problems = append(problems, fmt.Sprintf("len: Len()=%d, pending+held-back=%d after %+v", got, want, a))
			}
		}

		cancel()
		synctest.Wait()
	})

	return obs, flags, problems
}

func genQueueCase(r *rng, n int) []qAction {
	var (
		acts  []qAction
		nextV = 1
		held  = map[int]bool{}
		inq   = map[int]bool{}
	)

	nkeys := 2 + r.intn(3)
	durs := []int64{0, 1e6, 5e6, 10e6, 25e6}
	offs := []int64{-5e6, 0, 1e6, 5e6, 10e6, 20e6}

	for len(acts) < n {
		switch x := r.intn(100); {
		case x < 38:
			k := r.intn(nkeys)
			acts = append(acts, qAction{Op: "put", K: k, V: nextV})
			nextV++
			inq[k] = true
		case x < 62:
			acts = append(acts, qAction{Op: "get"})
			// we do not know which key comes out; over-approximate
			for k := range inq {
				if !held[k] {
					held[k] = true

					delete(inq, k)

					break
				}
			}
		case x < 84:
			// release or requeue some key that may be held (the driver skips it if it is not)
			k := r.intn(nkeys)
			if r.chance(1, 2) {
				acts = append(acts, qAction{Op: "release", K: k})
			} else {
				acts = append(acts, qAction{Op: "requeue", K: k, D: pick(r, offs)})
				inq[k] = true
			}

			delete(held, k)

			if r.chance(1, 2) {
				// the deferred Release of runReconcile, possibly after other events got in between
				if r.chance(1, 2) {
					acts = append(acts, qAction{Op: "get"})
				}

				acts = append(acts, qAction{Op: "stale_release", K: k})
			}
		default:
			acts = append(acts, qAction{Op: "sleep", D: pick(r, durs)})
		}
	}

	return acts
}

// enumQueueCases enumerates every action string of the given length over a small alphabet.
func enumQueueCases(length int) [][]qAction {
	alphabet := []qAction{
		{Op: "put", K: 0}, {Op: "put", K: 1}, {Op: "get"},
		{Op: "release", K: 0}, {Op: "requeue", K: 0, D: 5e6}, {Op: "requeue", K: 1, D: -1e6},
		{Op: "sleep", D: 5e6}, {Op: "stale_release", K: 0},
	}

	var (
		res [][]qAction
		rec func(prefix []qAction)
	)

	rec = func(prefix []qAction) {
		if len(prefix) == length {
			c := make([]qAction, len(prefix))
			copy(c, prefix)

			for i := range c { // distinct values for puts
				if c[i].Op == "put" {
					c[i].V = i + 1
				}
			}

			res = append(res, c)

			return
		}

		for _, a := range alphabet {
			rec(append(prefix, a))
		}
	}
	rec(nil)

	return res
}

func coqQCase(obs []qObs) string {
	items := make([]string, len(obs))
	for i, o := range obs {
		items[i] = fmt.Sprintf("(%s, %s, %s)", o.ev, o.out, coqZ(o.len))
	}

	return coqList(items)
}

// ---- part 2: runReconcile outcome -> requeue interval, through the real runtime -------

type probeQ struct {
	script []string // outcome per invocation
	times  []time.Duration
	start  time.Time
	calls  int
}

type skipErr struct{}

func (skipErr) Error() string { return "skip" }

func (p *probeQ) Name() string { return "probeQ" }

func (p *probeQ) Settings() controller.QSettings {
	return controller.QSettings{
		Inputs: []controller.Input{{Namespace: "ns", Type: "T", Kind: controller.InputQPrimary}},
	}
}

func outcomeErr(o string) error {
	plain := errors.New("boom")
	skip := xerrors.NewTaggedf[qtransform.SkipReconcileTag]("skipped")

	switch {
	case o == "ok":
		return nil
	case o == "skip":
		return skip
	case o == "err":
		return plain
	case o == "panic":
		panic("probe panic")
	case strings.HasPrefix(o, "requeue:"):
		var d int64

		fmt.Sscanf(o, "requeue:%d", &d)

		return controller.NewRequeueInterval(time.Duration(d))
	case strings.HasPrefix(o, "requeue_err:"):
		var d int64

		fmt.Sscanf(o, "requeue_err:%d", &d)

		return controller.NewRequeueError(plain, time.Duration(d))
	case strings.HasPrefix(o, "requeue_skip:"):
		var d int64

		fmt.Sscanf(o, "requeue_skip:%d", &d)

		return controller.NewRequeueError(skip, time.Duration(d))
	}

	panic("bad outcome " + o)
}

func (p *probeQ) Reconcile(_ context.Context, _ *zap.Logger, _ controller.QRuntime, _ resource.Pointer) error {
	i := p.calls
	p.calls++
	p.times = append(p.times, time.Since(p.start))

	if i >= len(p.script) {
		return nil
	}

	return outcomeErr(p.script[i])
}

func (p *probeQ) MapInput(context.Context, *zap.Logger, controller.QRuntime, controller.ReducedResourceMetadata) ([]resource.Pointer, error) {
	return nil, nil
}

func coqOutcome(o string) string {
	var d int64

	switch {
	case o == "ok":
		return "OOk"
	case o == "skip":
		return "OSkip"
	case o == "err", o == "panic":
		return "OErr"
	case strings.HasPrefix(o, "requeue:"):
		fmt.Sscanf(o, "requeue:%d", &d)

		return "(ORequeue " + coqZ(d) + ")"
	case strings.HasPrefix(o, "requeue_err:"):
		fmt.Sscanf(o, "requeue_err:%d", &d)

		return "(ORequeueErr " + coqZ(d) + ")"
	case strings.HasPrefix(o, "requeue_skip:"):
		fmt.Sscanf(o, "requeue_skip:%d", &d)

		return "(ORequeueSkip " + coqZ(d) + ")"
	}

	panic("bad outcome")
}

// runBackoffCase runs a scripted outcome sequence for one item through the real runtime and
// returns, per invocation, the gap to the next invocation (-1 = no re-invocation within 10 virtual
// minutes; the driver then touches the resource to trigger the next one).
func runBackoffCase(t *testing.T, script []string) (gaps []int64) {
	synctest.Test(t, func(t *testing.T) {
		ctx, cancel := context.WithCancel(context.Background())
		defer cancel()

		st := state.WrapCore(namespaced.NewState(inmem.Build))
		res := newRes("ns", "T", "a", "x")

		if err := st.Create(ctx, res); err != nil {
			t.Fatal(err)
		}

		rt, err := cruntime.NewRuntime(st, zap.NewNop())
		if err != nil {
			t.Fatal(err)
		}

		p := &probeQ{script: script, start: time.Now()}
		if err := rt.RegisterQController(p); err != nil {
			t.Fatal(err)
		}

		done := make(chan error, 1)

		go func() { done <- rt.Run(ctx) }()

		synctest.Wait()

		touched := map[int]bool{}

		for iter := 0; iter < 10*len(script)+20; iter++ {
			before := p.calls

			// let virtual time run: any requeue fires within 200s (max backoff window is 90s+1ns)
			time.Sleep(200 * time.Second)
			synctest.Wait()

			if p.calls > before {
				continue
			}

			if p.calls >= len(script) {
				break
			}

			// quiet and script not exhausted: touch the input so that the next invocation happens now
			touched[p.calls] = true

			cur, err := st.Get(ctx, res.Metadata())
			if err != nil {
				t.Fatal(err)
			}

			cur.Metadata().Labels().Set("touch", fmt.Sprint(p.calls))

			if err := st.Update(ctx, cur); err != nil {
				t.Fatal(err)
			}

			synctest.Wait()
		}

		for i := range script {
			if i >= len(p.times) {
				break
			}

			if i+1 < len(p.times) && !touched[i+1] {
				gaps = append(gaps, int64(p.times[i+1]-p.times[i]))
			} else {
				gaps = append(gaps, -1)
			}
		}

		cancel()
		<-done
		synctest.Wait()
	})

	return gaps
}

func genBackoffScript(r *rng, n int) []string {
	outs := []string{"ok", "skip", "err", "err", "err", "panic", "requeue:3000000000", "requeue_err:7000000000", "requeue_err:0", "requeue_skip:2000000000", "requeue:0"}
	s := make([]string, n)

	for i := range s {
		s[i] = pick(r, outs)
	}

	return s
}

func TestC09(t *testing.T) {
	dir := outDir(t)
	rep := newReport("C09", "queue: random action strings (put/get/release/requeue/sleep over 2-4 keys, virtual clock) plus every string of length<=L over a 7-symbol alphabet; "+
		"non-trivial = contains a Put while the item is held, a coalesced Put, or a delivered requeue; distinct by action string. backoff: scripted outcome sequences through the real runtime, gap to next reconcile vs model window")

	var (
		qcases  [][]qAction
		scripts [][]string
	)

	if rp := os.Getenv("VERIF_REPLAY"); rp != "" {
		b, err := os.ReadFile(rp)
		if err != nil {
			t.Fatal(err)
		}

		var rf struct {
			Kind   string    `json:"kind"`
			Queue  []qAction `json:"queue"`
			Script []string  `json:"script"`
		}

		if err := json.Unmarshal(b, &rf); err != nil {
			t.Fatal(err)
		}

		if rf.Queue != nil {
			qcases = append(qcases, rf.Queue)
		}

		if rf.Script != nil {
			scripts = append(scripts, rf.Script)
		}
	} else {
		r := newRng(seed(), "C09")

		for l := 1; l <= tier(4, 6); l++ {
			qcases = append(qcases, enumQueueCases(l)...)
		}

		rep.Exhaustive = false

		for range tier(400, 12000) {
			qcases = append(qcases, genQueueCase(r, 10+r.intn(40)))
		}

		// every outcome sequence of length <= 3 over the symbolic outcomes, then random longer ones
		syms := []string{"ok", "skip", "err", "panic", "requeue:3000000000", "requeue_err:7000000000", "requeue_err:0", "requeue_skip:2000000000"}
		for _, a := range syms {
			for _, b := range syms {
				scripts = append(scripts, []string{a, b})
			}
		}

		for range tier(60, 2000) {
			scripts = append(scripts, genBackoffScript(r, 3+r.intn(12)))
		}

		// continuous failure for much longer than any deadline a backoff library might apply by default (15 minutes of
		// failures need about 25 of them): the interval must stay inside the capped window for ever
		long := make([]string, 0, 46)
		for i := range 44 {
			long = append(long, pick(r, []string{"err", "err", "err", "panic"}))
			_ = i
		}

		scripts = append(scripts, append(append([]string(nil), long...), "ok", "err"), append(append([]string{"ok", "err"}, long[:40]...), "skip", "err"))
	}

	qf := newCoqFile("C09_queue_cases", []string{"Queue", "QueueCheck"}, "list qobs", "q_mismatches")

	var jl []any

	for i, c := range qcases {
		obs, flags, problems := runQueueCase(t, c)
		qf.add(coqQCase(obs))
		jl = append(jl, map[string]any{"kind": "queue", "queue": c})

		key, _ := json.Marshal(c)
		rep.count(string(key), len(flags) > 0)

		for f := range flags {
			rep.hit(f)
		}

		if i%97 == 0 {
			rep.sample(map[string]any{"queue_actions": c, "observed": coqQCase(obs)})
		}

		for _, p := range problems {
			rep.violate(i, p, map[string]any{"kind": "queue", "queue": c})
		}
	}

	qf.finishSharded(t, dir, rep, jl, 400)

	bf := newCoqFile("C09_backoff_cases", []string{"Queue", "QueueCheck"}, "list (outcome * Z)", "bo_mismatches")
	jl = nil

	for i, s := range scripts {
		gaps := runBackoffCase(t, s)

		items := make([]string, 0, len(s))
		for j := range gaps {
			items = append(items, fmt.Sprintf("(%s, %s)", coqOutcome(s[j]), coqZ(gaps[j])))
		}

		bf.add(coqList(items))
		jl = append(jl, map[string]any{"kind": "backoff", "script": s})

		nontrivial := false

		for j := 1; j < len(s); j++ {
			if (s[j] == "err" || s[j] == "panic") && (s[j-1] == "err" || s[j-1] == "panic" || s[j-1] == "requeue_err:0") {
				nontrivial = true

				rep.hit("consecutive_failures")
			}
		}

		rep.count(strings.Join(s, ","), nontrivial)

		if i%53 == 0 {
			rep.sample(map[string]any{"outcomes": s, "gaps_ns": gaps})
		}

		if len(gaps) != len(s) {
			rep.violate(i, fmt.Sprintf("backoff script: observed %d of %d invocations", len(gaps), len(s)), map[string]any{"kind": "backoff", "script": s})
		}

		// Go-side monitor: a plain failure is never retried sooner than the smallest interval of the schedule
		// (initial 500ms, randomisation 0.5 => 250ms), however long the item has been failing
		for j := 0; j < len(gaps) && j < len(s); j++ {
			if (s[j] == "err" || s[j] == "panic") && gaps[j] >= 0 && gaps[j] < int64(250*time.Millisecond) {
				rep.violateKey(i, "backoff-not-honoured", fmt.Sprintf("backoff-not-honoured: failure #%d of the item was retried after %v, sooner than any interval of the error backoff", j+1, time.Duration(gaps[j])),
					map[string]any{"kind": "backoff", "script": s})

				break
			}
		}
	}

	bf.finishSharded(t, dir, rep, jl, 400)
	rep.write(t, dir)
}
