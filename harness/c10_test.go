package harness

import (
	"context"
	"crypto/rand"
	"encoding/json"
	"errors"
	"fmt"
	"os"
	"path/filepath"
	"strings"
	"sync"
	"sync/atomic"
	"testing"
	"testing/synctest"
	"time"

	"go.etcd.io/bbolt"

	"github.com/cosi-project/runtime/pkg/resource"
	"github.com/cosi-project/runtime/pkg/state"
	"github.com/cosi-project/runtime/pkg/state/impl/inmem"
	"github.com/cosi-project/runtime/pkg/state/impl/namespaced"
	"github.com/cosi-project/runtime/pkg/state/impl/store"
	"github.com/cosi-project/runtime/pkg/state/impl/store/bolt"
	"github.com/cosi-project/runtime/pkg/state/impl/store/compression"
	"github.com/cosi-project/runtime/pkg/state/impl/store/encryption"
)

// C10: the real bbolt-backed state with every marshaler stacking, a fault-injecting BackingStore in between,
// abandon-and-reopen on the same database file.

type pStep struct {
	Kind string `json:"kind"` // op | fault | crash-before | crash-after | crash | loadfail
	Op   *sOp   `json:"op,omitempty"`
	N    int    `json:"n,omitempty"` // loadfail: attempts that fail; J: items delivered before failing
	J    int    `json:"j,omitempty"`
}

type pCase struct {
	Marshaler string  `json:"marshaler"` // proto | zstd0 | zstdbig | aes | aes+zstd | zstd+aes
	Steps     []pStep `json:"steps"`
}

var c10Counter atomic.Int64

type faultPlan struct {
	mu         sync.Mutex
	mode       string // "" | fault | before | after
	fired      bool
	loadFails  int
	loadAfterJ int
}

var errInjected = errors.New("injected backing store failure")

type faultyBS struct {
	inner inmem.BackingStore
	plan  *faultPlan
}

func (f *faultyBS) hit(write func() error) error {
	f.plan.mu.Lock()
	mode := f.plan.mode
	f.plan.mode = ""

	if mode != "" {
		f.plan.fired = true
	}
	f.plan.mu.Unlock()

	switch mode {
	case "fault", "before":
		return errInjected
	case "after":
		if err := write(); err != nil {
			return err
		}

		return errInjected // the process dies before anything else happens: the caller abandons the state
	}

	return write()
}

func (f *faultyBS) Put(ctx context.Context, typ resource.Type, r resource.Resource) error {
	return f.hit(func() error { return f.inner.Put(ctx, typ, r) })
}

func (f *faultyBS) Destroy(ctx context.Context, typ resource.Type, p resource.Pointer) error {
	return f.hit(func() error { return f.inner.Destroy(ctx, typ, p) })
}

func (f *faultyBS) Load(ctx context.Context, h inmem.LoadHandler) error {
	f.plan.mu.Lock()
	fail := f.plan.loadFails > 0
	if fail {
		f.plan.loadFails--
	}

	after := f.plan.loadAfterJ
	f.plan.mu.Unlock()

	if !fail {
		return f.inner.Load(ctx, h)
	}

	n := 0

	err := f.inner.Load(ctx, func(typ resource.Type, r resource.Resource) error {
		if n >= after {
			return errInjected
		}

		n++

		return h(typ, r)
	})
	if err == nil {
		return errInjected // fewer than J items: fail at the end
	}

	return err
}

func c10Marshaler(kind string, key []byte) store.Marshaler {
	var m store.Marshaler = store.ProtobufMarshaler{}

	cipher := func() *encryption.Cipher {
		return encryption.NewCipher(encryption.KeyProviderFunc(func() ([]byte, error) { return key, nil }))
	}

	switch kind {
	case "zstd0":
		m = compression.NewMarshaler(m, compression.ZStd(), 0)
	case "zstdbig":
		m = compression.NewMarshaler(m, compression.ZStd(), 1<<20)
	case "aes":
		m = encryption.NewMarshaler(m, cipher())
	case "aes+zstd":
		m = encryption.NewMarshaler(compression.NewMarshaler(m, compression.ZStd(), 40), cipher())
	case "zstd+aes":
		m = compression.NewMarshaler(encryption.NewMarshaler(m, cipher()), compression.ZStd(), 40)
	}

	return m
}

func runPersistCase(t *testing.T, dir string, c pCase) (coq string, problems []string, flags map[string]bool) {
	flags = map[string]bool{}

	synctest.Test(t, func(t *testing.T) {
		ctx, cancel := context.WithCancel(context.Background())
		defer cancel()

		path := filepath.Join(dir, fmt.Sprintf("c10-%d.db", c10Counter.Add(1)))
		defer os.Remove(path)

		key := make([]byte, 32)
		rand.Read(key) //nolint:errcheck

		plan := &faultPlan{}
		t0 := time.Now()
		lastVer := map[string]uint64{}

		var (
			mu     sync.Mutex
			st     state.CoreState
			bs     *bolt.BackingStore
			wctx   context.Context
			wstop  context.CancelFunc
			evMu   sync.Mutex
			events []string
			items  []string
		)

		open := func() {
			var err error

			bs, err = bolt.NewBackingStore(func() (*bbolt.DB, error) { return bbolt.Open(path, 0o600, &bbolt.Options{NoSync: true}) }, c10Marshaler(c.Marshaler, key))
			if err != nil {
				t.Fatal(err)
			}

			st = namespaced.NewState(func(ns resource.Namespace) state.CoreState {
				return inmem.NewStateWithOptions(inmem.WithBackingStore(&faultyBS{inner: bs.WithNamespace(ns), plan: plan}))(ns)
			})

			wctx, wstop = context.WithCancel(ctx)

			evMu.Lock()
			events = nil
			evMu.Unlock()

			// a watcher per kind of namespace n1 (its establishment performs the lazy load, which may fail and is retried)
			for _, typ := range c01Types {
				ch := make(chan state.Event)

				for attempt := 0; ; attempt++ {
					err := st.WatchKind(wctx, resource.NewMetadata("n1", typ, "", resource.VersionUndefined), ch)
					if err == nil {
						break
					}

					flags["load_failed"] = true

					if attempt > 20 {
						t.Fatalf("load keeps failing: %v", err)
					}
				}

				go func(typ string) {
					for {
						select {
						case e := <-ch:
							kind := map[state.EventType]int{state.Created: 1, state.Updated: 2, state.Destroyed: 3}[e.Type]
							if kind == 0 {
								continue
							}

							evMu.Lock()
							events = append(events, fmt.Sprintf("%s|(%d%%N, %s, %s)", typ, kind, coqAtom(e.Resource.Metadata().ID()), coqVer(e.Resource.Metadata().Version())))
							evMu.Unlock()
						case <-wctx.Done():
							return
						}
					}
				}(typ)
			}
		}

		closeDB := func() {
			wstop()
			synctest.Wait()

			if err := bs.Close(); err != nil {
				t.Fatal(err)
			}
		}

		checkpoint := func() {
			synctest.Wait()

			for _, ns := range c01NS {
				for _, typ := range c01Types {
					l, err := coqListOf(ctx, st, ns, typ, t0)
					if err != nil {
						problems = append(problems, "list-error: "+err.Error())

						continue
					}

					items = append(items, fmt.Sprintf("IList %s %s %s", coqAtom(ns), coqAtom(typ), l))
				}
			}
		}

		eventsItem := func() {
			synctest.Wait()

			// the model keeps one event log for all kinds; watchers are per kind: compare per kind in model order is not
			// possible across kinds, so only namespace n1 / first type is compared exactly
			evMu.Lock()

			var sel []string

			for _, e := range events {
				if len(e) > 2 && e[:len(c01Types[0])+1] == c01Types[0]+"|" {
					sel = append(sel, e[len(c01Types[0])+1:])
				}
			}
			evMu.Unlock()

			items = append(items, fmt.Sprintf("IEvents %s %s %s", coqAtom("n1"), coqAtom(c01Types[0]), coqList(sel)))
		}

		open()
		checkpoint()

		for _, s := range c.Steps {
			time.Sleep(time.Millisecond) // creation and update times must differ between calls

			switch s.Kind {
			case "loadfail":
				// takes effect at the next reopening
				plan.mu.Lock()
				plan.loadFails, plan.loadAfterJ = s.N, s.J
				plan.mu.Unlock()

				items = append(items, "IStep PLoadFail None")
			case "crash":
				eventsItem()
				closeDB()
				open()

				items = append(items, "IStep PCrash None")

				checkpoint()

				flags["crash"] = true
			case "op", "fault", "crash-before", "crash-after":
				mode := map[string]string{"op": "", "fault": "fault", "crash-before": "before", "crash-after": "after"}[s.Kind]

				plan.mu.Lock()
				plan.mode, plan.fired = mode, false
				plan.mu.Unlock()

				now := coqZ(int64(time.Since(t0)))
				cop, cobs, p := execOp(ctx, st, *s.Op, t0, lastVer, &mu)

				plan.mu.Lock()
				fired := plan.fired
				plan.mode = ""
				plan.mu.Unlock()

				if p != "" {
					problems = append(problems, "panic: "+p)
				}

				switch s.Kind {
				case "op":
					items = append(items, fmt.Sprintf("IStep (POp %s %s false) (Some %s)", now, cop, cobs))
				case "fault":
					if fired {
						if len(cobs) > 6 && cobs[:6] == "(ObErr" {
							cobs = "(ObFaulted " + cobs[7:]
						} else {
							cobs = "(ObFaulted (false, false, false, [true]))"
							problems = append(problems, "store-error-acked: the backing store rejected the write but the call reported success")
						}

						flags["store_fault"] = true
					}

					items = append(items, fmt.Sprintf("IStep (POp %s %s true) (Some %s)", now, cop, cobs))

					// memory must not have moved: re-read the kind the rejected call addressed
					if l, err := coqListOf(ctx, st, s.Op.NS, s.Op.Typ, t0); err == nil {
						items = append(items, fmt.Sprintf("IList %s %s %s", coqAtom(s.Op.NS), coqAtom(s.Op.Typ), l))
					}
				case "crash-before", "crash-after":
					// whatever the call returned, the process is gone: abandon the state, reopen the file
					eventsBefore := len(events)
					_ = eventsBefore

					closeDB()
					open()

					which := "POpCrashBefore"
					if s.Kind == "crash-after" {
						which = "POpCrashAfter"
					}

					items = append(items, fmt.Sprintf("IStep (%s %s %s) None", which, now, cop))

					// the harness never learned the outcome: forget the written-back version
					checkpoint()

					flags[s.Kind] = true

					if fired {
						flags[s.Kind+":hit"] = true
					}
				}
			}
		}

		eventsItem()
		checkpoint()

		// final: abandon and reopen once more
		closeDB()
		open()

		items = append(items, "IStep PCrash None")

		checkpoint()
		closeDB()

		coq = coqList(items)
	})

	return coq, problems, flags
}

func genPersistCase(r *rng) pCase {
	c := pCase{Marshaler: pick(r, []string{"proto", "zstd0", "zstdbig", "aes", "aes+zstd", "zstd+aes"})}

	ops := genStoreOps(r, 10+r.intn(25), false)

	for i := range ops {
		// keep most traffic on few keys so that histories are deep
		if r.chance(2, 3) {
			ops[i].NS, ops[i].Typ = "n1", c01Types[0]
		}

		o := ops[i]

		switch x := r.intn(40); {
		case x < 26:
			c.Steps = append(c.Steps, pStep{Kind: "op", Op: &o})
		case x < 33:
			c.Steps = append(c.Steps, pStep{Kind: "fault", Op: &o})
		case x < 36:
			c.Steps = append(c.Steps, pStep{Kind: "crash-after", Op: &o})
		case x < 37:
			c.Steps = append(c.Steps, pStep{Kind: "crash-before", Op: &o})
		case x < 39:
			c.Steps = append(c.Steps, pStep{Kind: "crash"})
		default:
			c.Steps = append(c.Steps, pStep{Kind: "loadfail", N: 1 + r.intn(2), J: r.intn(3)}, pStep{Kind: "crash"})
		}
	}

	return c
}

// slowLoadBS takes the snapshot of a Load at once and hands it over only after a pause (a slow disk): other clients get
// time to arrive and to write in between.
type slowLoadBS struct {
	inmem.BackingStore
	pause time.Duration
	loads atomic.Int32
}

func (s *slowLoadBS) Load(ctx context.Context, h inmem.LoadHandler) error {
	s.loads.Add(1)

	type item struct {
		typ resource.Type
		r   resource.Resource
	}

	var snap []item

	if err := s.BackingStore.Load(ctx, func(typ resource.Type, r resource.Resource) error {
		snap = append(snap, item{typ, r})

		return nil
	}); err != nil {
		return err
	}

	time.Sleep(s.pause)

	for _, it := range snap {
		if err := h(it.typ, it.r); err != nil {
			return err
		}
	}

	return nil
}

func runConcurrentFirstAccess(t *testing.T, path string) (problems []string) {
	ctx := context.Background()
	ptr := resource.NewMetadata("n1", "T", "a", resource.VersionUndefined)
	m := store.ProtobufMarshaler{}

	open := func(pause time.Duration) (state.CoreState, *bolt.BackingStore, *slowLoadBS) {
		bs, err := bolt.NewBackingStore(func() (*bbolt.DB, error) { return bbolt.Open(path, 0o600, &bbolt.Options{NoSync: true}) }, m)
		if err != nil {
			t.Fatal(err)
		}

		slow := &slowLoadBS{BackingStore: bs.WithNamespace("n1"), pause: pause}

		return inmem.NewStateWithOptions(inmem.WithBackingStore(slow))("n1"), bs, slow
	}

	// incarnation 1: a committed resource at version 2
	st, bs, _ := open(0)

	r := newRes("n1", "T", "a", "p0")
	if err := st.Create(ctx, r); err != nil {
		t.Fatal(err)
	}

	r.SetPayload("p1")

	if err := st.Update(ctx, r); err != nil {
		t.Fatal(err)
	}

	bs.Close() //nolint:errcheck

	// incarnation 2: three clients; A triggers the load, B arrives while it is in flight, C writes a little later
	const pause = 60 * time.Millisecond

	st, bs, slow := open(pause)
	defer bs.Close() //nolint:errcheck

	var (
		wg         sync.WaitGroup
		mu         sync.Mutex
		ackedVer   string
		ackedSpec  string
		note       = func(p string) { mu.Lock(); problems = append(problems, p); mu.Unlock() }
		firstGetOK = func(who string) resource.Resource {
			got, err := st.Get(ctx, ptr)
			if err != nil {
				note(fmt.Sprintf("first-access: client %s's first Get of a resource committed before the restart failed: %v", who, err))

				return nil
			}

			if got.Metadata().Version().String() != "2" && got.Metadata().Version().String() != "3" {
				note(fmt.Sprintf("first-access: client %s read version %s of a resource committed at version 2", who, got.Metadata().Version()))
			}

			return got
		}
	)

	wg.Add(3)

	go func() { defer wg.Done(); firstGetOK("A") }()

	go func() {
		defer wg.Done()

		time.Sleep(pause / 3)
		firstGetOK("B")
	}()

	go func() {
		defer wg.Done()

		time.Sleep(pause + pause/2)

		cur := firstGetOK("C")
		if cur == nil {
			return
		}

		cur.(*Res).SetPayload("p2") //nolint:forcetypeassert

		if err := st.Update(ctx, cur); err != nil {
			note(fmt.Sprintf("first-access: client C's Update from the version it just read failed: %v", err))

			return
		}

		mu.Lock()
		ackedVer, ackedSpec = cur.Metadata().Version().String(), "p2"
		mu.Unlock()
	}()

	wg.Wait()
	time.Sleep(3 * pause) // a late second load, if any, has delivered its snapshot by now

	if n := slow.loads.Load(); n != 1 {
		problems = append(problems, fmt.Sprintf("load-count: the backing store was loaded %d times by one incarnation whose first load succeeded", n))
	}

	if ackedVer != "" {
		got, err := st.Get(ctx, ptr)
		if err != nil || got.Metadata().Version().String() != ackedVer || payloadOf(got) != ackedSpec {
			problems = append(problems, fmt.Sprintf("memory-diverges: the acknowledged write (version %s, %q) is not what the state returns afterwards (%v, err %v): memory no longer equals the durable copy", ackedVer, ackedSpec, got, err))
		}
	}

	return problems
}

func TestC10(t *testing.T) {
	dir := outDir(t)
	rep := newReport("C10", "the real bbolt-backed namespaced inmem state with six marshaler stackings (protobuf; +zstd below/above the threshold; +AES-GCM; both orders) behind a fault-injecting BackingStore: random CRUD histories over two namespaces and two kinds with "+
		"rejected writes, process death before / after the durable write of a call, process death between calls, partially failing loads (retried); after every reopening of the same database file both kinds of both namespaces are listed; a watcher per kind records events; "+
		"everything (call results incl. written-back versions and timestamps, listings after reopen, event log of the first kind) is replayed on the Persist machine; non-trivial = a crash, rejected write or failed load occurred")
	rep.CorrIsSpec = true // the Persist machine is the property's statement: a disagreeing history is a failing input

	var cases []pCase

	if rp := os.Getenv("VERIF_REPLAY"); rp != "" {
		b, err := os.ReadFile(rp)
		if err != nil {
			t.Fatal(err)
		}

		var rf struct {
			Case pCase `json:"case"`
		}

		if err := json.Unmarshal(b, &rf); err != nil {
			t.Fatal(err)
		}

		cases = append(cases, rf.Case)
	} else {
		r := newRng(seed(), "C10")

		for range tier(150, 4000) {
			cases = append(cases, genPersistCase(r))
		}
	}

	var (
		f     *coqFile
		jl    []any
		shard int
	)

	flush := func() {
		if f == nil || f.nCases == 0 {
			return
		}

		f.finishSharded(t, dir, rep, jl, 400)
		f, jl = nil, nil
	}

	for i, c := range cases {
		if f == nil {
			shard++
			f = newCoqFile(fmt.Sprintf("C10_persist_cases_%d", shard), []string{"Store", "StoreCheck", "Persist", "PersistCheck"}, "list pitem", "persist_mismatches")
		}

		coq, problems, flags := runPersistCase(t, dir, c)

		key, _ := json.Marshal(c)
		rep.count(string(key), len(flags) >= 1)
		rep.hit(c.Marshaler)

		for fl := range flags {
			rep.hit(fl)
		}

		if len(flags) >= 4 {
			rep.sample(map[string]any{"case": c})
		}

		for _, p := range problems {
			rep.violateKey(i, "persist:"+p[:min(len(p), 24)], p, map[string]any{"case": c})
		}

		f.add(coq)
		jl = append(jl, map[string]any{"case": c})

		if f.nCases >= 40 {
			flush()
		}
	}

	flush()

	// ---- concurrent first accesses after a reopen (real time, free-running goroutines): the lazy load happens once,
	// nobody operates on a half-loaded state, and a write acknowledged while another client is still "loading" is not
	// rolled back in memory ----
	if os.Getenv("VERIF_REPLAY") == "" {
		for it := range tier(4, 40) {
			for _, p := range runConcurrentFirstAccess(t, filepath.Join(dir, fmt.Sprintf("firstaccess-%d.bolt", it))) {
				rep.violateKey(len(cases)+it, strings.SplitN(p, ":", 2)[0], p, map[string]any{"concurrent_first_access": it, "problem": p})
			}

			rep.count(fmt.Sprint("firstaccess", it), true)
			rep.hit("concurrent_first_access")
		}

		rep.Assumptions = append(rep.Assumptions, "interleavings of several clients' first accesses after a reopen are sampled with a slow Load (free-running goroutines), not enumerated")
	}

	rep.Assumptions = append(rep.Assumptions, "a bbolt Update transaction is atomic and durable once it returns (NoSync is set: fsync behaviour is not exercised); process death is simulated by abandoning the state object and reopening the database file")
	rep.write(t, dir)
}
