package harness

import (
	"context"
	"encoding/json"
	"fmt"
	"google.golang.org/grpc/codes"
	"os"
	"regexp"
	"sort"
	"strings"
	"testing"
	"testing/synctest"
	"time"

	"google.golang.org/protobuf/types/known/timestamppb"

	"github.com/cosi-project/runtime/api/v1alpha1"
	"github.com/cosi-project/runtime/pkg/resource"
	"github.com/cosi-project/runtime/pkg/state"
	"github.com/cosi-project/runtime/pkg/state/impl/inmem"
	"github.com/cosi-project/runtime/pkg/state/impl/namespaced"
	"github.com/cosi-project/runtime/pkg/state/protobuf/client"
	"github.com/cosi-project/runtime/pkg/state/protobuf/server"
)

// C11: the same call sequence on the wrapped state directly, through client->server (native lifecycle RPCs) and
// through client->server with the lifecycle RPCs stripped (sticky fallbacks); plus a grid of malformed requests.

type gOp struct {
	Op      string `json:"op"` // create | update | destroy | get | list | teardown | tad | addfin | remfin
	ID      string `json:"id,omitempty"`
	Owner   string `json:"owner,omitempty"`
	VerRel  string `json:"ver,omitempty"` // cur | stale
	Exp     string `json:"exp,omitempty"`
	Payload string `json:"payload,omitempty"`
	Label   string `json:"label,omitempty"`
	Fin     string `json:"fin,omitempty"`
	Tearing bool   `json:"tearing,omitempty"`
	Query   string `json:"query,omitempty"` // list: "" | eq | exists | notexists | in | id
}

type gCase struct {
	Ops []gOp `json:"ops"`
}

type gBackend struct {
	name string
	st   state.State
	mc   *memClient
}

var rpcOf = map[string]string{"create": "RCreate", "update": "RUpdate", "destroy": "RDestroy", "get": "RGet", "list": "RList", "teardown": "RTeardown", "tad": "RTeardownAndDestroy"}

func renderRes(r resource.Resource, t0 time.Time) string {
	if r == nil {
		return "<nil>"
	}

	md := r.Metadata()
	lk := md.Labels().Keys()
	sort.Strings(lk)

	ls := ""
	for _, k := range lk {
		v, _ := md.Labels().Get(k)
		ls += k + "=" + v + ","
	}

	return fmt.Sprintf("%s/%s/%s v=%s owner=%q phase=%s fins=%v labels=%s created=%d updated=%d spec=%q",
		md.Namespace(), md.Type(), md.ID(), md.Version(), md.Owner(), md.Phase(), *md.Finalizers(), ls, md.Created().Sub(t0), md.Updated().Sub(t0), payloadOf(r))
}

func runGrpcCase(t *testing.T, c gCase) (rows, wrows []string, problems []string, flags map[string]bool) {
	flags = map[string]bool{}

	synctest.Test(t, func(t *testing.T) {
		ctx, cancel := context.WithCancel(context.Background())
		defer cancel()

		t0 := time.Now()

		mk := func(name string, remote, strip bool) gBackend {
			backing := state.WrapCore(namespaced.NewState(inmem.Build))
			if !remote {
				return gBackend{name: name, st: backing}
			}

			mc := &memClient{srv: server.NewState(backing), noTeardown: strip}

			return gBackend{name: name, st: state.WrapCore(client.NewAdapter(mc, client.WithDisableWatchRetry())), mc: mc}
		}

		bes := []gBackend{mk("direct", false, false), mk("remote", true, false), mk("remote-fallback", true, true)}

		// what travels on the wire of the native remote backend for Create / Update / Destroy (last call per RPC)
		type wireRec struct {
			owner string
			exp   *string
			code  codes.Code
		}

		lastWire := map[string]wireRec{}
		bes[1].mc.unaryRec = func(rpc, owner string, exp *string, code codes.Code) {
			lastWire[rpc] = wireRec{owner, exp, code}
		}

		type outcome struct {
			err   errObs
			isErr bool
			text  string // everything else that must be identical: written-back object, results
		}

		run := func(be gBackend, o gOp) outcome {
			ptr := resource.NewMetadata("n1", "T", o.ID, resource.VersionUndefined)

			fail := func(err error) outcome { return outcome{err: classify(err, "n1", "T"), isErr: true} }

			switch o.Op {
			case "create":
				r := newRes("n1", "T", o.ID, o.Payload)
				if o.Label != "" {
					r.Metadata().Labels().Set("k", o.Label)
				}

				if o.Tearing {
					r.Metadata().SetPhase(resource.PhaseTearingDown)
				}

				if err := be.st.Create(ctx, r, state.WithCreateOwner(o.Owner)); err != nil {
					return fail(err)
				}

				return outcome{text: renderRes(r, t0)}
			case "update":
				cur, err := be.st.Get(ctx, ptr)
				if err != nil {
					// update of an absent resource
					r := newRes("n1", "T", o.ID, o.Payload)
					v, _ := resource.ParseVersion("1") //nolint:errcheck
					r.Metadata().SetVersion(v)

					opt, _ := expOpt(o.Exp)

					if err := be.st.Update(ctx, r, state.WithUpdateOwner(o.Owner), opt); err != nil {
						return fail(err)
					}

					return outcome{text: renderRes(r, t0)}
				}

				r := cur.(*Res) //nolint:forcetypeassert
				r.SetPayload(o.Payload)

				if o.Label != "" {
					r.Metadata().Labels().Set("k", o.Label)
				}

				if o.Tearing {
					r.Metadata().SetPhase(resource.PhaseTearingDown)
				}

				if o.VerRel == "stale" {
					v, _ := resource.ParseVersion("77") //nolint:errcheck
					r.Metadata().SetVersion(v)
				}

				opt, _ := expOpt(o.Exp)

				if err := be.st.Update(ctx, r, state.WithUpdateOwner(o.Owner), opt); err != nil {
					return fail(err)
				}

				return outcome{text: renderRes(r, t0)}
			case "destroy":
				if err := be.st.Destroy(ctx, ptr, state.WithDestroyOwner(o.Owner)); err != nil {
					return fail(err)
				}

				return outcome{}
			case "get":
				r, err := be.st.Get(ctx, ptr)
				if err != nil {
					return fail(err)
				}

				return outcome{text: renderRes(r, t0)}
			case "list":
				var opts []state.ListOption

				switch o.Query {
				case "eq":
					opts = append(opts, state.WithLabelQuery(resource.LabelEqual("k", o.Label)))
				case "exists":
					opts = append(opts, state.WithLabelQuery(resource.LabelExists("k")))
				case "notexists":
					opts = append(opts, state.WithLabelQuery(resource.LabelExists("k", resource.NotMatches)))
				case "in":
					opts = append(opts, state.WithLabelQuery(resource.LabelIn("k", []string{"v", o.Label})))
				case "noteq+exists":
					opts = append(opts, state.WithLabelQuery(resource.LabelEqual("k", o.Label, resource.NotMatches), resource.LabelExists("k")))
				case "notexists+in":
					opts = append(opts, state.WithLabelQuery(resource.LabelExists("zz", resource.NotMatches), resource.LabelIn("k", []string{"v", o.Label})))
				case "exists+noteq":
					opts = append(opts, state.WithLabelQuery(resource.LabelExists("k"), resource.LabelEqual("k", o.Label, resource.NotMatches)))
				case "notin+exists+eq":
					opts = append(opts, state.WithLabelQuery(resource.LabelIn("k", []string{"w"}, resource.NotMatches), resource.LabelExists("k"), resource.LabelEqual("k", "v")))
				case "or":
					opts = append(opts, state.WithLabelQuery(resource.LabelEqual("k", "v")), state.WithLabelQuery(resource.LabelExists("k", resource.NotMatches)))
				case "id":
					opts = append(opts, state.WithIDQuery(resource.IDRegexpMatch(regexpFor(o.ID))))
				case "or-empty":
					// an alternative without terms matches everything, so the whole selector does
					opts = append(opts, state.WithLabelQuery(resource.LabelEqual("k", o.Label)), state.WithLabelQuery())
				case "empty-or":
					opts = append(opts, state.WithLabelQuery(), state.WithLabelQuery(resource.LabelExists("k", resource.NotMatches)))
				case "raw-eq2", "raw-noteq2", "raw-lt2", "raw-in0", "raw-exists1", "raw-eq2+in":
					// terms no constructor builds (several values on a single-value operator, none on a set operator):
					// only a verbatim query carries them; remote and wrapped state must still agree
					terms := map[string][]resource.LabelTerm{
						"raw-eq2":     {{Key: "k", Op: resource.LabelOpEqual, Value: []string{o.Label, "w"}}},
						"raw-noteq2":  {{Key: "k", Op: resource.LabelOpEqual, Value: []string{"v", o.Label}, Invert: true}},
						"raw-lt2":     {{Key: "k", Op: resource.LabelOpLT, Value: []string{"w", "a"}}},
						"raw-in0":     {{Key: "k", Op: resource.LabelOpIn}},
						"raw-exists1": {{Key: "k", Op: resource.LabelOpExists, Value: []string{o.Label}}},
						"raw-eq2+in":  {{Key: "k", Op: resource.LabelOpEqual, Value: []string{"v", "w"}}, {Key: "k", Op: resource.LabelOpIn, Value: []string{"v", "w"}}},
					}[o.Query]
					opts = append(opts, state.WithLabelQuery(resource.RawLabelQuery(resource.LabelQuery{Terms: terms})))
				}

				l, err := be.st.List(ctx, resource.NewMetadata("n1", "T", "", resource.VersionUndefined), opts...)
				if err != nil {
					return fail(err)
				}

				s := ""
				for _, r := range l.Items {
					s += renderRes(r, t0) + "; "
				}

				return outcome{text: s}
			case "teardown":
				ready, err := be.st.Teardown(ctx, ptr, state.WithTeardownOwner(o.Owner))
				if err != nil {
					return fail(err)
				}

				return outcome{text: fmt.Sprint("ready=", ready)}
			case "tad":
				// a blocking call: make sure no finalizer holds it forever
				if cur, err := be.st.Get(ctx, ptr); err == nil {
					for _, f := range *cur.Metadata().Finalizers() {
						be.st.RemoveFinalizer(ctx, ptr, f) //nolint:errcheck
					}
				}

				if err := be.st.TeardownAndDestroy(ctx, ptr, state.WithTeardownAndDestroyOwner(o.Owner)); err != nil {
					return fail(err)
				}

				return outcome{}
			case "addfin":
				if err := be.st.AddFinalizer(ctx, ptr, o.Fin); err != nil {
					return fail(err)
				}

				return outcome{}
			case "remfin":
				if err := be.st.RemoveFinalizer(ctx, ptr, o.Fin); err != nil {
					return fail(err)
				}

				return outcome{}
			}

			return outcome{}
		}

		for i, o := range c.Ops {
			outs := make([]outcome, len(bes))
			for j, be := range bes {
				clear(lastWire)

				outs[j] = run(be, o)

				if rpc, ok := map[string]string{"create": "RCreate", "update": "RUpdate", "destroy": "RDestroy"}[o.Op]; ok && j == 1 {
					if w, seen := lastWire[rpc]; seen {
						exp := "None"

						if rpc == "RUpdate" {
							switch o.Exp {
							case "", "running":
								exp = "(Some false)"
							case "tearingDown":
								exp = "(Some true)"
							}
						}

						wexp := "None"
						if w.exp != nil {
							wexp = "(Some " + coqBytes([]byte(*w.exp)) + ")"
						}

						direct := "None"
						if outs[0].isErr {
							direct = "(Some " + outs[0].err.coq() + ")"
						}

						code := "None"

						switch w.code { //nolint:exhaustive
						case codes.OK:
						case codes.NotFound:
							code = "(Some CNotFound)"
						case codes.PermissionDenied:
							code = "(Some CPermissionDenied)"
						case codes.AlreadyExists:
							code = "(Some CAlreadyExists)"
						case codes.InvalidArgument:
							code = "(Some CInvalidArgument)"
						case codes.FailedPrecondition:
							code = "(Some CFailedPrecondition)"
						default:
							code = "(Some CUnknown)"
						}

						wrows = append(wrows, fmt.Sprintf("(%s, %s, %s, (%s, %s), %s, %s)", rpc, coqAtom(o.Owner), exp, coqAtom(w.owner), wexp, direct, code))
					}
				}
			}

			for _, p := range takeServerPanics() {
				problems = append(problems, fmt.Sprintf("server-panic: op %d (%s): %s", i, o.Op, p))
			}

			d := outs[0]

			for j := 1; j < len(bes); j++ {
				r := outs[j]

				switch {
				case d.isErr != r.isErr:
					problems = append(problems, fmt.Sprintf("transparency:%s:outcome: op %d %+v succeeds on one side only (direct error=%v, %s error=%v)", o.Op, i, o, d.isErr, bes[j].name, r.isErr))
				case d.isErr && d.err.coq() != r.err.coq():
					problems = append(problems, fmt.Sprintf("transparency:%s:error-class: op %d %+v direct %s vs %s %s", o.Op, i, o, d.err.coq(), bes[j].name, r.err.coq()))
				case !d.isErr && d.text != r.text:
					problems = append(problems, fmt.Sprintf("transparency:%s:result: op %d %+v direct {%s} vs %s {%s}", o.Op, i, o, d.text, bes[j].name, r.text))
				}
			}

			if d.isErr {
				flags["error:"+o.Op] = true

				if rpc, ok := rpcOf[o.Op]; ok {
					rows = append(rows, fmt.Sprintf("(%s, %s, %s)", rpc, d.err.coq(), outs[1].err.coq()))
				}
			}

			flags["op:"+o.Op] = true
		}

		// final contents must agree
		var finals []string

		for _, be := range bes {
			l, err := be.st.List(ctx, resource.NewMetadata("n1", "T", "", resource.VersionUndefined))
			if err != nil {
				t.Fatal(err)
			}

			s := ""
			for _, r := range l.Items {
				s += renderRes(r, t0) + "; "
			}

			finals = append(finals, s)
		}

		for j := 1; j < len(finals); j++ {
			if finals[j] != finals[0] {
				problems = append(problems, fmt.Sprintf("transparency:final-contents: direct {%s} vs %s {%s}", finals[0], bes[j].name, finals[j]))
			}
		}

		if bes[2].mc != nil {
			flags["fallback"] = true
		}
	})

	return rows, wrows, problems, flags
}

func regexpFor(id string) *regexpT { return mustRegexp("^" + id) }

func genGrpcCase(r *rng) gCase {
	var c gCase

	ids := []string{"a", "b", "ab"}
	owners := []string{"", "", "o1", "o2"}

	for range 8 + r.intn(25) {
		o := gOp{ID: pick(r, ids), Owner: pick(r, owners), Payload: fmt.Sprintf("p%d", r.intn(5)), Label: pick(r, []string{"", "v", "w"}), Fin: pick(r, []string{"f1", "f2"})}

		switch x := r.intn(100); {
		case x < 18:
			o.Op = "create"
			o.Tearing = r.chance(1, 8)
		case x < 40:
			o.Op = "update"
			o.VerRel = pick(r, []string{"cur", "cur", "cur", "stale"})
			o.Exp = pick(r, []string{"", "", "running", "tearingDown", "any"})
			o.Tearing = r.chance(1, 6)
		case x < 50:
			o.Op = "destroy"
		case x < 60:
			o.Op = "get"
		case x < 70:
			o.Op = "list"
			o.Query = pick(r, []string{"", "eq", "exists", "notexists", "in", "id", "noteq+exists", "notexists+in", "exists+noteq", "notin+exists+eq", "or",
				"raw-eq2", "raw-noteq2", "raw-lt2", "raw-in0", "raw-exists1", "raw-eq2+in", "or-empty", "empty-or"})
		case x < 80:
			o.Op = "teardown"
		case x < 86:
			o.Op = "tad"
		case x < 94:
			o.Op = "addfin"
		default:
			o.Op = "remfin"
		}

		c.Ops = append(c.Ops, o)
	}

	return c
}

// ---- malformed requests ------------------------------------------------------------------------------------

func malformedGrid() []func(ctx context.Context, mc *memClient) (string, error) {
	var grid []func(ctx context.Context, mc *memClient) (string, error)

	add := func(name string, f func(ctx context.Context, mc *memClient) error) {
		grid = append(grid, func(ctx context.Context, mc *memClient) (string, error) { return name, f(ctx, mc) })
	}

	mds := map[string]*v1alpha1.Metadata{
		"nil": nil, "empty": {}, "bad-version": {Namespace: "n1", Type: "T", Id: "x", Version: "abc", Phase: "running"},
		"neg-version":  {Namespace: "n1", Type: "T", Id: "x", Version: "-1", Phase: "running"},
		"bad-phase":    {Namespace: "n1", Type: "T", Id: "x", Version: "1", Phase: "gone"},
		"no-phase":     {Namespace: "n1", Type: "T", Id: "x", Version: "undefined"},
		"unknown-type": {Namespace: "n1", Type: "NoSuchType", Id: "x", Version: "undefined", Phase: "running"},
		"ok":           {Namespace: "n1", Type: "T", Id: "x", Version: "undefined", Phase: "running", Created: timestamppb.New(time.Unix(0, 0))},
		"bad-ts":       {Namespace: "n1", Type: "T", Id: "x", Version: "undefined", Phase: "running", Created: &timestamppb.Timestamp{Seconds: 1 << 62, Nanos: -5}},
	}

	specs := map[string]*v1alpha1.Spec{"nil": nil, "empty": {}, "bytes": {ProtoSpec: []byte("x")}, "yaml-only": {YamlSpec: "a: b"}}

	for mn, md := range mds {
		for sn, sp := range specs {
			res := &v1alpha1.Resource{Metadata: md, Spec: sp}

			add("create:"+mn+":"+sn, func(ctx context.Context, mc *memClient) error {
				_, err := mc.Create(ctx, &v1alpha1.CreateRequest{Resource: res, Options: &v1alpha1.CreateOptions{}})

				return err
			})
			add("create-nilopts:"+mn+":"+sn, func(ctx context.Context, mc *memClient) error {
				_, err := mc.Create(ctx, &v1alpha1.CreateRequest{Resource: res})

				return err
			})

			for _, ph := range []*string{nil, new("running"), new("bogus"), new("")} {
				add("update:"+mn+":"+sn, func(ctx context.Context, mc *memClient) error {
					_, err := mc.Update(ctx, &v1alpha1.UpdateRequest{NewResource: res, Options: &v1alpha1.UpdateOptions{ExpectedPhase: ph}})

					return err
				})
			}

			add("update-nilopts:"+mn+":"+sn, func(ctx context.Context, mc *memClient) error {
				_, err := mc.Update(ctx, &v1alpha1.UpdateRequest{NewResource: res})

				return err
			})
		}
	}

	add("create:nil-resource", func(ctx context.Context, mc *memClient) error {
		_, err := mc.Create(ctx, &v1alpha1.CreateRequest{})

		return err
	})
	add("update:nil-resource", func(ctx context.Context, mc *memClient) error {
		_, err := mc.Update(ctx, &v1alpha1.UpdateRequest{})

		return err
	})

	for _, id := range []string{"", "x", "\x00", strings.Repeat("z", 5000)} {
		add("get", func(ctx context.Context, mc *memClient) error {
			_, err := mc.Get(ctx, &v1alpha1.GetRequest{Namespace: "n1", Type: "T", Id: id})

			return err
		})
		add("get-empty-kind", func(ctx context.Context, mc *memClient) error {
			_, err := mc.Get(ctx, &v1alpha1.GetRequest{Id: id})

			return err
		})
		add("destroy", func(ctx context.Context, mc *memClient) error {
			_, err := mc.Destroy(ctx, &v1alpha1.DestroyRequest{Namespace: "n1", Type: "T", Id: id})

			return err
		})
		add("teardown", func(ctx context.Context, mc *memClient) error {
			_, err := mc.Teardown(ctx, &v1alpha1.TeardownRequest{Namespace: "n1", Type: "T", Id: id})

			return err
		})
		add("tad", func(ctx context.Context, mc *memClient) error {
			_, err := mc.TeardownAndDestroy(ctx, &v1alpha1.TeardownAndDestroyRequest{Namespace: "n1", Type: "T", Id: id})

			return err
		})
	}

	// label terms: every operator (and unknown ones) with 0, 1, 2 values, inverted or not
	var queries [][]*v1alpha1.LabelQuery

	for op := int32(0); op <= 9; op++ {
		for _, vals := range [][]string{nil, {}, {"1"}, {"1", "2"}, {""}, {"not-a-number"}} {
			for _, inv := range []bool{false, true} {
				queries = append(queries, []*v1alpha1.LabelQuery{{Terms: []*v1alpha1.LabelTerm{{Key: "k", Op: v1alpha1.LabelTerm_Operation(op), Value: vals, Invert: inv}}}})
			}
		}
	}

	queries = append(queries,
		[]*v1alpha1.LabelQuery{nil}, []*v1alpha1.LabelQuery{{}}, []*v1alpha1.LabelQuery{{Terms: []*v1alpha1.LabelTerm{nil}}},
		[]*v1alpha1.LabelQuery{{Terms: []*v1alpha1.LabelTerm{{Key: "", Op: 99}}}},
	)

	idqs := []*v1alpha1.IDQuery{nil, {}, {Regexp: "("}, {Regexp: "^a"}, {Regexp: strings.Repeat("(a*)*", 20)}}

	drain := func(s interface {
		Recv() (*v1alpha1.ListResponse, error)
	}) error {
		for {
			if _, err := s.Recv(); err != nil {
				return err
			}
		}
	}

	for _, q := range queries {
		for _, idq := range idqs[:3] {
			add("list-query", func(ctx context.Context, mc *memClient) error {
				s, err := mc.List(ctx, &v1alpha1.ListRequest{Namespace: "n1", Type: "T", Options: &v1alpha1.ListOptions{LabelQuery: q, IdQuery: idq}})
				if err != nil {
					return err
				}

				return drain(s)
			})
		}

		add("watch-query", func(ctx context.Context, mc *memClient) error {
			wctx, stop := context.WithCancel(ctx)
			defer stop()

			s, err := mc.Watch(wctx, &v1alpha1.WatchRequest{Namespace: "n1", Type: "T", Options: &v1alpha1.WatchOptions{LabelQuery: q}})
			if err != nil {
				return err
			}

			_, err = s.Recv()

			return err
		})
	}

	add("list-nilopts", func(ctx context.Context, mc *memClient) error {
		s, err := mc.List(ctx, &v1alpha1.ListRequest{Namespace: "n1", Type: "T"})
		if err != nil {
			return err
		}

		return drain(s)
	})

	for _, idq := range idqs {
		add("list-idquery", func(ctx context.Context, mc *memClient) error {
			s, err := mc.List(ctx, &v1alpha1.ListRequest{Namespace: "n1", Type: "T", Options: &v1alpha1.ListOptions{IdQuery: idq}})
			if err != nil {
				return err
			}

			return drain(s)
		})
	}

	bookmarks := [][]byte{nil, {}, {1}, make([]byte, 15), make([]byte, 16), make([]byte, 17), []byte(strings.Repeat("\xff", 16))}

	for _, id := range []*string{nil, new(""), new("x")} {
		for _, bm := range bookmarks {
			for _, tail := range []int32{0, -1, 1, 1 << 30} {
				for _, flagsN := range []int{0, 1, 2, 3, 4, 7} {
					add("watch", func(ctx context.Context, mc *memClient) error {
						wctx, stop := context.WithCancel(ctx)
						defer stop()

						s, err := mc.Watch(wctx, &v1alpha1.WatchRequest{Namespace: "n1", Type: "T", Id: id, Options: &v1alpha1.WatchOptions{
							StartFromBookmark: bm, TailEvents: tail, BootstrapContents: flagsN&1 != 0, Aggregated: flagsN&2 != 0, BootstrapBookmark: flagsN&4 != 0,
						}})
						if err != nil {
							return err
						}

						_, err = s.Recv()

						return err
					})
				}
			}
		}
	}

	add("watch-nilopts", func(ctx context.Context, mc *memClient) error {
		wctx, stop := context.WithCancel(ctx)
		defer stop()

		s, err := mc.Watch(wctx, &v1alpha1.WatchRequest{Namespace: "n1", Type: "T"})
		if err != nil {
			return err
		}

		_, err = s.Recv()

		return err
	})

	return grid
}

func TestC11(t *testing.T) {
	dir := outDir(t)
	rep := newReport("C11", "(a) the same random call sequences (create/update/destroy/get/list with label and id queries/teardown/teardown-and-destroy/finalizers; owners, expected phases, stale versions) on the wrapped state directly, through the real client adapter + server (native lifecycle RPCs) and through a server without them (sticky fallbacks): "+
		"success, error class under six qualifier combinations, written-back metadata incl. timestamps, results and final contents must be identical; (b) every error row (RPC, direct class, remote class) compared with the model's server_map/client_map, and every distinct wire row (owner and expected-phase option in the Create/Update/Destroy request, status code of the answer) with GrpcOps.client_request and server_map; "+
		"(c) a grid of malformed wire-level requests (nil/empty/garbage resources, metadata, specs, versions, phases, timestamps, every label operator incl. unknown ones with 0-2 values, bad regexps, every bookmark length, negative tails, option combinations refused for resource watches) against the real server: an error status or a normal answer, never a handler panic")

	var cases []gCase

	if rp := os.Getenv("VERIF_REPLAY"); rp != "" {
		b, err := os.ReadFile(rp)
		if err != nil {
			t.Fatal(err)
		}

		var rf struct {
			Case gCase `json:"case"`
		}

		if err := json.Unmarshal(b, &rf); err != nil {
			t.Fatal(err)
		}

		cases = append(cases, rf.Case)
	} else {
		r := newRng(seed(), "C11")

		for range tier(300, 6000) {
			cases = append(cases, genGrpcCase(r))
		}
	}

	f := newCoqFile("C11_errmap_rows", []string{"Grpc", "GrpcCheck"}, "grow", "grpc_mismatches")
	// what travelled on the wire of the native remote backend, against GrpcOps.client_request / server_map
	fw := newCoqFile("C11_wire_rows", []string{"Store", "Grpc", "GrpcCheck", "GrpcOps", "GrpcOpsCheck"}, "wrow", "wire_mismatches")

	var jl, jlw []any

	seenRows := map[string]bool{}

	for i, c := range cases {
		rows, wrows, problems, flags := runGrpcCase(t, c)

		key, _ := json.Marshal(c)
		rep.count(string(key), len(flags) >= 8)

		for fl := range flags {
			rep.hit(fl)
		}

		if i%101 == 7 {
			rep.sample(map[string]any{"case": c})
		}

		for _, p := range problems {
			k := strings.SplitN(p, " ", 2)[0]
			rep.violateKey(i, strings.TrimSuffix(k, ":"), p, map[string]any{"case": c})
		}

		for _, row := range rows {
			// the table is small: keep each distinct row once, with the first sequence that produced it
			if seenRows[row] {
				continue
			}

			seenRows[row] = true

			f.add(row)
			jl = append(jl, map[string]any{"case": c})
		}

		for _, row := range wrows {
			if seenRows["w"+row] {
				continue
			}

			seenRows["w"+row] = true

			fw.add(row)
			jlw = append(jlw, map[string]any{"case": c})
		}
	}

	f.finishSharded(t, dir, rep, jl, 400)
	fw.finishSharded(t, dir, rep, jlw, 400)

	// ---- (c) malformed requests ----
	if os.Getenv("VERIF_REPLAY") == "" {
		synctest.Test(t, func(t *testing.T) {
			ctx, cancel := context.WithCancel(context.Background())
			defer cancel()

			backing := state.WrapCore(namespaced.NewState(inmem.Build))
			backing.Create(ctx, newRes("n1", "T", "x", "p")) //nolint:errcheck

			mc := &memClient{srv: server.NewState(backing)}

			for gi, g := range malformedGrid() {
				name, err := g(ctx, mc)

				rep.count(fmt.Sprintf("malformed:%d", gi), true)
				rep.hit("malformed:" + strings.SplitN(name, ":", 2)[0])

				if err != nil {
					rep.hit("malformed:rejected")
				}

				for _, p := range takeServerPanics() {
					rep.violateKey(gi, "server-panic:"+strings.SplitN(name, ":", 2)[0], fmt.Sprintf("server-panic: malformed request %q made the handler panic: %s", name, p), map[string]any{"malformed": name, "index": gi})
				}

				synctest.Wait()
			}

			cancel()
			synctest.Wait()
		})
	}

	rep.Assumptions = append(rep.Assumptions, "the transport is replaced by the generated marshal/unmarshal pair (HTTP/2 and proto3 UTF-8 validation are not exercised); the three backends are separate states driven identically at the same virtual instants")
	if os.Getenv("VERIF_REPLAY") == "" {
		c11OverrunPhase(t, rep)
	}

	rep.write(t, dir)
}

type regexpT = regexp.Regexp

func mustRegexp(s string) *regexpT { return regexp.MustCompile(s) }
