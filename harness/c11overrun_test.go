//go:build verif

package harness

// C11, overrun phase: a remote kind watch (plain and aggregated) whose consumer stalls while the wrapped state, built
// with a small history buffer, commits more events than the buffer holds. The direct watch ends with Errored (buffer
// overrun, C02); the remote one must relay exactly that: a gap-free prefix of the log followed by one Errored event,
// and the server's Watch handler must not panic on the event that carries no resource.

import (
	"context"
	"fmt"
	"testing"
	"testing/synctest"

	"github.com/cosi-project/runtime/pkg/resource"
	"github.com/cosi-project/runtime/pkg/state"
	"github.com/cosi-project/runtime/pkg/state/impl/inmem"
	"github.com/cosi-project/runtime/pkg/state/impl/namespaced"
	"github.com/cosi-project/runtime/pkg/state/protobuf/client"
	"github.com/cosi-project/runtime/pkg/state/protobuf/server"
)

func c11OverrunPhase(t *testing.T, rep *Report) {
	for _, aggregated := range []bool{false, true} {
		for _, writes := range []int{30, 120} {
			var problems []string

			synctest.Test(t, func(t *testing.T) {
				ctx, cancel := context.WithCancel(context.Background())
				defer cancel()

				backing := state.WrapCore(namespaced.NewState(func(ns resource.Namespace) state.CoreState {
					return inmem.NewStateWithOptions(inmem.WithHistoryInitialCapacity(4), inmem.WithHistoryMaxCapacity(8), inmem.WithHistoryGap(2))(ns)
				}))
				mc := &memClient{srv: server.NewState(backing)}
				remote := state.WrapCore(client.NewAdapter(mc, client.WithDisableWatchRetry()))

				kind := resource.NewMetadata("n1", "T", "", resource.VersionUndefined)

				// every event of both watches lands, flattened, in an unbuffered channel that nobody reads yet
				mkWatch := func(st state.State) (chan state.Event, error) {
					out := make(chan state.Event)

					if aggregated {
						in := make(chan []state.Event)
						if err := st.WatchKindAggregated(ctx, kind, in); err != nil {
							return nil, err
						}

						go func() {
							for {
								select {
								case evs := <-in:
									for _, e := range evs {
										select {
										case out <- e:
										case <-ctx.Done():
											return
										}
									}
								case <-ctx.Done():
									return
								}
							}
						}()

						return out, nil
					}

					return out, st.WatchKind(ctx, kind, out)
				}

				directCh, err := mkWatch(backing)
				if err != nil {
					t.Fatal(err)
				}

				remoteCh, err := mkWatch(remote)
				if err != nil {
					problems = append(problems, fmt.Sprintf("remote watch refused: %v", err))

					return
				}

				synctest.Wait()

				r := newRes("n1", "T", "a", "p0")
				if err := backing.Create(ctx, r); err != nil {
					t.Fatal(err)
				}

				for i := range writes {
					cur, err := backing.Get(ctx, r.Metadata())
					if err != nil {
						t.Fatal(err)
					}

					upd := cur.DeepCopy().(*Res) //nolint:forcetypeassert,errcheck
					upd.SetPayload(fmt.Sprintf("p%d", i+1))

					if err := backing.Update(ctx, upd); err != nil {
						t.Fatal(err)
					}
				}

				synctest.Wait()

				// now read both to the end
				collect := func(ch chan state.Event) (types []state.EventType, versions []string) {
					for {
						synctest.Wait()

						select {
						case e := <-ch:
							types = append(types, e.Type)
							if e.Resource != nil {
								versions = append(versions, e.Resource.Metadata().Version().String())
							} else {
								versions = append(versions, "-")
							}

							if e.Type == state.Errored {
								return types, versions
							}
						default:
							return types, versions
						}
					}
				}

				dTypes, _ := collect(directCh)
				rTypes, rVers := collect(remoteCh)

				for _, p := range takeServerPanics() {
					problems = append(problems, "server-panic: "+p)
				}

				directErrored := len(dTypes) > 0 && dTypes[len(dTypes)-1] == state.Errored
				remoteErrored := len(rTypes) > 0 && rTypes[len(rTypes)-1] == state.Errored

				if directErrored && !remoteErrored {
					problems = append(problems, fmt.Sprintf("overrun-not-relayed: the direct watch ended with Errored after %d events, the remote watch delivered %d events (%v) and no Errored", len(dTypes)-1, len(rTypes), rVers))
				}

				// whatever was delivered remotely before the end is the gap-free beginning of the log: versions 1, 2, 3, ...
				for i, v := range rVers {
					if v == "-" {
						continue
					}

					if v != fmt.Sprint(i+1) {
						problems = append(problems, fmt.Sprintf("gap: remote event %d carries version %s (expected %d) - %v", i, v, i+1, rVers))

						break
					}
				}

				if !directErrored {
					problems = append(problems, fmt.Sprintf("harness: the direct watch did not overrun (%d events)", len(dTypes)))
				}

				cancel()
				synctest.Wait()
			})

			key := fmt.Sprintf("overrun:agg=%v:writes=%d", aggregated, writes)
			rep.count(key, true)
			rep.hit("remote-watch-overrun")

			for _, p := range problems {
				rep.violateKey(0, "overrun:"+p[:min(len(p), 14)], p, map[string]any{"overrun": map[string]any{"aggregated": aggregated, "writes": writes}})
			}
		}
	}
}
