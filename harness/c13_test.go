package harness

import (
	"context"
	"encoding/binary"
	"encoding/json"
	"fmt"
	"os"
	"regexp"
	"sort"
	"sync"
	"testing"
	"testing/synctest"
	"time"

	"go.uber.org/zap"
	"go.uber.org/zap/zapcore"
	"go.uber.org/zap/zaptest/observer"
	"google.golang.org/grpc/codes"
	"google.golang.org/grpc/status"

	"github.com/cosi-project/runtime/api/v1alpha1"
	"github.com/cosi-project/runtime/pkg/resource"
	"github.com/cosi-project/runtime/pkg/state"
	"github.com/cosi-project/runtime/pkg/state/impl/inmem"
	"github.com/cosi-project/runtime/pkg/state/protobuf/client"
	"github.com/cosi-project/runtime/pkg/state/protobuf/server"
)

// C13: the real client adapter over an in-memory transport that fails on script, against the real server over a
// real inmem state; a reference watch with the same options runs directly on the backing state.

type rwStep struct {
	Op    string `json:"op"` // create | update | destroy | label | sleep
	ID    string `json:"id,omitempty"`
	Label string `json:"label,omitempty"`
	D     int64  `json:"d,omitempty"`
}

type rwCase struct {
	Kind     string       `json:"kind"` // single | kind | bootstrap | aggregated | selector
	Cap      int          `json:"cap"`
	Gap      int          `json:"gap"`
	NoRetry  bool         `json:"no_retry,omitempty"`
	Pre      int          `json:"pre"`            // resources created before the watch starts
	Tail     int          `json:"tail,omitempty"` // kindbmtail: WithKindTailEvents(Tail)
	Plan     []watchFault `json:"plan"`
	Steps    []rwStep     `json:"steps"`
	FinalNap int64        `json:"final_nap"`
}

type rwRec struct {
	at   int64 // ns since the start of the case (fake clock)
	call int
	what string
	n    int // events in the message
	typ  []v1alpha1.EventType
	code codes.Code
}

func bookmarkPos(b []byte) (int64, bool) {
	if len(b) != 16 {
		return 0, false
	}

	return int64(binary.BigEndian.Uint64(b[8:])), true
}

type rwObs struct {
	Type     state.EventType
	ID       string
	Ver      string
	HasBM    bool
	Pos      int64
	Init     bool
	ErrText  string
	Bookmark []byte
	At       int64
}

func obsOf(e state.Event) rwObs {
	o := rwObs{Type: e.Type, Bookmark: e.Bookmark}
	if e.Resource != nil {
		o.ID = e.Resource.Metadata().ID()
		o.Ver = e.Resource.Metadata().Version().String()
	}

	if e.Error != nil {
		o.ErrText = e.Error.Error()
	}

	o.Pos, o.HasBM = bookmarkPos(e.Bookmark)

	return o
}

func runRemoteWatch(t *testing.T, c rwCase) (coq, budgetCoq string, problems []string, flags map[string]bool) {
	flags = map[string]bool{}

	synctest.Test(t, func(t *testing.T) {
		ctx, cancel := context.WithCancel(context.Background())
		defer cancel()

		t0 := time.Now()

		mk := func() state.CoreState {
			return inmem.NewStateWithOptions(
				inmem.WithHistoryInitialCapacity(c.Cap), inmem.WithHistoryMaxCapacity(c.Cap), inmem.WithHistoryGap(c.Gap),
			)("n1")
		}

		backing := mk()

		var (
			recMu sync.Mutex
			recs  []rwRec
			marks []int // index into recs at which each driver append happened
		)

		mc := &memClient{srv: server.NewState(state.WrapCore(backing))}
		mc.watchFaults = &watchFaultPlan{plan: c.Plan}
		mc.watchRec = func(call int, what string, msg *v1alpha1.WatchResponse, err error) {
			r := rwRec{at: int64(time.Since(t0)), call: call, what: what, code: status.Code(err)}
			if msg != nil {
				r.n = len(msg.Event)
				for _, e := range msg.Event {
					r.typ = append(r.typ, e.EventType)
				}
			}

			recMu.Lock()
			recs = append(recs, r)
			recMu.Unlock()
		}

		retryCore, retryLog := observer.New(zapcore.WarnLevel)
		opts := []client.AdapterOption{client.WithRetryLogger(zap.New(retryCore))}
		if c.NoRetry {
			opts = append(opts, client.WithDisableWatchRetry())
		}

		remote := state.WrapCore(client.NewAdapter(mc, opts...))

		for i := range c.Pre {
			r := newRes("n1", "T", fmt.Sprintf("p%d", i), "x")
			r.Metadata().Labels().Set("k", "v")
			backing.Create(ctx, r) //nolint:errcheck
		}

		kindMD := resource.NewMetadata("n1", "T", "", resource.VersionUndefined)
		oneMD := resource.NewMetadata("n1", "T", "a", resource.VersionUndefined)

		var (
			obsMu           sync.Mutex
			remoteEv, refEv []rwObs
			remoteDone      bool
			collect         = func(dst *[]rwObs, e state.Event) {
				o := obsOf(e)
				o.At = int64(time.Since(t0))
				obsMu.Lock()
				*dst = append(*dst, o)
				obsMu.Unlock()
			}
			refCh, remCh     = make(chan state.Event), make(chan state.Event)
			refAgg, remAgg   = make(chan []state.Event), make(chan []state.Event)
			kopts            []state.WatchKindOption
			refErr, remErr   error
			selector         = resource.LabelEqual("k", "v")
			startBoth        func()
			initCountOf      func(evs []rwObs) int
			single           = c.Kind == "single"
			withInitialEvent = false
		)

		switch c.Kind {
		case "single":
			withInitialEvent = true
			startBoth = func() {
				refErr = backing.Watch(ctx, oneMD, refCh)
				remErr = remote.Watch(ctx, oneMD, remCh)
			}
		case "kind":
			startBoth = func() {
				refErr = backing.WatchKind(ctx, kindMD, refCh, kopts...)
				remErr = remote.WatchKind(ctx, kindMD, remCh, kopts...)
			}
		case "kindbm":
			kopts = append(kopts, state.WithBootstrapBookmark(true))
			startBoth = func() {
				refErr = backing.WatchKind(ctx, kindMD, refCh, kopts...)
				remErr = remote.WatchKind(ctx, kindMD, remCh, kopts...)
			}
		case "kindbmtail":
			// initial bookmark + backlog: the Noop must carry the position before the backlog, or a failure right after
			// it resumes past the backlog
			kopts = append(kopts, state.WithBootstrapBookmark(true), state.WithKindTailEvents(c.Tail))
			startBoth = func() {
				refErr = backing.WatchKind(ctx, kindMD, refCh, kopts...)
				remErr = remote.WatchKind(ctx, kindMD, remCh, kopts...)
			}
		case "bootstrap":
			kopts = append(kopts, state.WithBootstrapContents(true))
			startBoth = func() {
				refErr = backing.WatchKind(ctx, kindMD, refCh, kopts...)
				remErr = remote.WatchKind(ctx, kindMD, remCh, kopts...)
			}
		case "kindfrombm", "singlefrombm":
			// a watch that itself starts from a bookmark: the head of the log, taken from a short-lived direct watch
			var head []byte

			{
				hctx, hstop := context.WithCancel(ctx)
				hch := make(chan state.Event)

				if err := backing.WatchKind(hctx, kindMD, hch, state.WithBootstrapBookmark(true)); err != nil {
					t.Fatal(err)
				}

				e := <-hch
				head = e.Bookmark

				hstop()
				synctest.Wait()
			}

			if c.Kind == "kindfrombm" {
				kopts = append(kopts, state.WithKindStartFromBookmark(head))
				startBoth = func() {
					refErr = backing.WatchKind(ctx, kindMD, refCh, kopts...)
					remErr = remote.WatchKind(ctx, kindMD, remCh, kopts...)
				}
			} else {
				single = true
				startBoth = func() {
					refErr = backing.Watch(ctx, oneMD, refCh, state.WithStartFromBookmark(head))
					remErr = remote.Watch(ctx, oneMD, remCh, state.WithStartFromBookmark(head))
				}
			}
		case "selector":
			kopts = append(kopts, state.WatchWithLabelQuery(selector))
			startBoth = func() {
				refErr = backing.WatchKind(ctx, kindMD, refCh, kopts...)
				remErr = remote.WatchKind(ctx, kindMD, remCh, kopts...)
			}
		case "idquery", "idlabel":
			// selection by ID (and by ID and label together): everything in the request that narrows the watch has to
			// survive a re-dial
			kopts = append(kopts, state.WatchWithIDQuery(resource.IDRegexpMatch(regexp.MustCompile("^[ap]"))))
			if c.Kind == "idlabel" {
				kopts = append(kopts, state.WatchWithLabelQuery(selector))
			}

			startBoth = func() {
				refErr = backing.WatchKind(ctx, kindMD, refCh, kopts...)
				remErr = remote.WatchKind(ctx, kindMD, remCh, kopts...)
			}
		case "aggregated":
			kopts = append(kopts, state.WithBootstrapContents(true))
			startBoth = func() {
				refErr = backing.WatchKindAggregated(ctx, kindMD, refAgg, kopts...)
				remErr = remote.WatchKindAggregated(ctx, kindMD, remAgg, kopts...)
			}
		default:
			t.Fatalf("bad kind %q", c.Kind)
		}

		initCountOf = func(evs []rwObs) int {
			switch {
			case withInitialEvent:
				if len(evs) > 0 {
					return 1
				}

				return 0
			case c.Kind == "kindbm" || c.Kind == "kindbmtail":
				if len(evs) > 0 && evs[0].Type == state.Noop {
					return 1
				}

				return 0
			case c.Kind == "bootstrap" || c.Kind == "aggregated":
				for i, e := range evs {
					if e.Type == state.Bootstrapped {
						return i + 1
					}
				}

				return len(evs)
			}

			return 0
		}

		startBoth()

		if refErr != nil && remErr != nil && state.IsInvalidWatchBookmarkError(refErr) == state.IsInvalidWatchBookmarkError(remErr) {
			flags["setup_refused_on_both_sides"] = true

			return
		}

		if refErr != nil || remErr != nil {
			problems = append(problems, fmt.Sprintf("watch-setup: ref=%v remote=%v", refErr, remErr))

			return
		}

		go func() {
			for {
				select {
				case e := <-refCh:
					collect(&refEv, e)
				case es := <-refAgg:
					for _, e := range es {
						collect(&refEv, e)
					}
				case <-ctx.Done():
					return
				}
			}
		}()

		go func() {
			for {
				select {
				case e := <-remCh:
					collect(&remoteEv, e)

					if e.Type == state.Errored {
						obsMu.Lock()
						remoteDone = true
						obsMu.Unlock()
					}
				case es := <-remAgg:
					for _, e := range es {
						collect(&remoteEv, e)

						if e.Type == state.Errored {
							obsMu.Lock()
							remoteDone = true
							obsMu.Unlock()
						}
					}
				case <-ctx.Done():
					return
				}
			}
		}()

		synctest.Wait()

		p0 := c.Pre // log entries before the watch

		// a tail start moves the start of the live part back; the model sees the backlog as commits right after the start
		backlog := 0
		if c.Kind == "kindbmtail" {
			backlog = min(c.Tail, c.Pre, c.Cap-c.Gap)
			p0 -= backlog
		}
		appends := 0
		vers := map[string]resource.Resource{}

		mark := func() {
			recMu.Lock()
			marks = append(marks, len(recs))
			recMu.Unlock()

			appends++
		}

		for _, s := range c.Steps {
			switch s.Op {
			case "sleep":
				time.Sleep(time.Duration(s.D))
			case "create":
				r := newRes("n1", "T", s.ID, "x")
				if s.Label != "" {
					r.Metadata().Labels().Set("k", s.Label)
				}

				mark()

				if backing.Create(ctx, r) != nil {
					recMu.Lock()
					marks = marks[:len(marks)-1]
					recMu.Unlock()

					appends--
				} else {
					vers[s.ID] = r
				}
			case "update", "label":
				cur, err := backing.Get(ctx, resource.NewMetadata("n1", "T", s.ID, resource.VersionUndefined))
				if err != nil {
					continue
				}

				if s.Op == "label" {
					if s.Label == "" {
						cur.Metadata().Labels().Delete("k")
					} else {
						cur.Metadata().Labels().Set("k", s.Label)
					}
				} else {
					cur.(*Res).SetPayload(cur.(*Res).Payload() + "y") //nolint:forcetypeassert
				}

				mark()

				if backing.Update(ctx, cur) != nil {
					recMu.Lock()
					marks = marks[:len(marks)-1]
					recMu.Unlock()

					appends--
				}
			case "destroy":
				mark()

				if backing.Destroy(ctx, resource.NewMetadata("n1", "T", s.ID, resource.VersionUndefined)) != nil {
					recMu.Lock()
					marks = marks[:len(marks)-1]
					recMu.Unlock()

					appends--
				}
			}

			synctest.Wait()
		}

		time.Sleep(time.Duration(c.FinalNap))
		synctest.Wait()

		obsMu.Lock()
		rem := append([]rwObs(nil), remoteEv...)
		ref := append([]rwObs(nil), refEv...)
		dead := remoteDone
		obsMu.Unlock()

		recMu.Lock()
		rs := append([]rwRec(nil), recs...)
		ms := append([]int(nil), marks...)
		recMu.Unlock()

		// ---- reference: initial part and positions of the live part ----
		nInitRef := initCountOf(ref)

		matching := make([]bool, c.Pre+appends)

		for _, e := range ref[nInitRef:] {
			if !e.HasBM || e.Pos < 0 || int(e.Pos) >= len(matching) {
				problems = append(problems, fmt.Sprintf("reference-watch: unexpected live event %+v", e))

				return
			}

			matching[e.Pos] = true
		}

		refByPos := map[int64]rwObs{}
		for _, e := range ref[nInitRef:] {
			refByPos[e.Pos] = e
		}

		// ---- Go-side oracle: remote == prefix of reference (+ Errored), complete if alive ----
		nInitRem := initCountOf(rem)
		if dead && withInitialEvent && len(rem) == 1 && rem[0].Type == state.Errored {
			nInitRem = 0
		}

		for i := 0; i < nInitRem && i < nInitRef; i++ {
			a, b := rem[i], ref[i]
			if a.Type == state.Errored && i == len(rem)-1 {
				nInitRem = i

				break
			}

			if a.Type != b.Type || a.ID != b.ID || a.Ver != b.Ver || string(a.Bookmark) != string(b.Bookmark) {
				problems = append(problems, fmt.Sprintf("initial-part: remote event %d = %v %s@%s differs from the direct watch %v %s@%s", i, a.Type, a.ID, a.Ver, b.Type, b.ID, b.Ver))
			}
		}

		last := int64(-2)

		for i, e := range rem[nInitRem:] {
			if e.Type == state.Errored {
				if nInitRem+i != len(rem)-1 {
					problems = append(problems, "errored: events delivered after Errored")
				}

				continue
			}

			if e.Type == state.Bootstrapped || !e.HasBM {
				problems = append(problems, fmt.Sprintf("re-bootstrap: %v without log position delivered in the live part at index %d", e.Type, nInitRem+i))

				continue
			}

			want, ok := refByPos[e.Pos]

			switch {
			case !ok:
				problems = append(problems, fmt.Sprintf("spurious: remote delivered position %d (%v %s) that the direct watch with the same options does not contain", e.Pos, e.Type, e.ID))
			case want.Type != e.Type || want.ID != e.ID || want.Ver != e.Ver:
				problems = append(problems, fmt.Sprintf("content: position %d remote %v %s@%s direct %v %s@%s", e.Pos, e.Type, e.ID, e.Ver, want.Type, want.ID, want.Ver))
			}

			if e.Pos <= last {
				problems = append(problems, fmt.Sprintf("order: position %d delivered after %d (duplicate or reordering)", e.Pos, last))
			}

			for q := last + 1; q < e.Pos && last >= -1; q++ {
				if q >= int64(p0) && matching[q] {
					problems = append(problems, fmt.Sprintf("gap: position %d skipped (delivered %d after %d)", q, e.Pos, last))
				}
			}

			if last == -2 {
				for q := int64(p0); q < e.Pos; q++ {
					if matching[q] {
						problems = append(problems, fmt.Sprintf("gap: position %d skipped at the start of the live part", q))
					}
				}
			}

			last = e.Pos
		}

		// ---- transport trace -> model choices ----
		var choices []string

		for range backlog {
			choices = append(choices, "SAppend")
		}

		mi := 0
		first := map[int]bool{} // streams whose ready message was delivered

		// the retry budget's view of the same run (RetryBudget.v): breaks of established streams, every decision of the
		// retry loop with its delay (from the adapter's retry log), the give-up; in time order
		type budgetEv struct {
			at   int64
			prio int
			coq  string
		}

		var budget []budgetEv

		for _, e := range retryLog.All() {
			if e.Message != "watch retrying" {
				continue
			}

			d, _ := e.ContextMap()["backoff"].(time.Duration)
			at := int64(e.Time.Sub(t0))
			budget = append(budget, budgetEv{at, 1, fmt.Sprintf("BRetry %d%%Z %d%%Z", at, int64(d))})

			if int64(d) > int64(time.Second) {
				flags["backoff_grew"] = true
			}
		}

		flush := func(upto int) {
			for mi < len(ms) && ms[mi] <= upto {
				choices = append(choices, "SAppend")
				mi++
			}
		}

		for i, r := range rs {
			flush(i)

			switch r.what {
			case "dial-fail":
				choices = append(choices, "SRedialFail")
				flags["redial_failed"] = true
			case "msg":
				if r.n == 0 && !first[r.call] {
					first[r.call] = true

					if r.call > 0 {
						choices = append(choices, "SRedialOK")
						flags["resumed"] = true
					}

					continue
				}

				for _, ty := range r.typ {
					if ty == v1alpha1.EventType_ERRORED {
						choices = append(choices, "SOverrun")
						flags["overrun"] = true
					} else {
						choices = append(choices, "SDeliver")
					}
				}
			case "end":
				switch {
				case !first[r.call] && r.call > 0 && r.code == codes.FailedPrecondition:
					if r.call < len(c.Plan) && c.Plan[r.call].Foreign {
						choices = append(choices, "SRedialForeign")
						flags["foreign_server"] = true
					} else {
						choices = append(choices, "SRedialOK") // the model must find the bookmark invalid
						flags["bookmark_expired"] = true
					}
				case !first[r.call] && r.call > 0:
					choices = append(choices, "SRedialFail")
					flags["ready_lost"] = true
				default:
					choices = append(choices, "SBreak")
					flags["stream_broken"] = true

					budget = append(budget, budgetEv{r.at, 0, fmt.Sprintf("BBreak %d%%Z", r.at)})
				}
			}
		}

		flush(len(rs))

		// retries exhausted: the adapter gave up inside the retry loop
		gaveUp := false

		if dead && len(rem) > 0 {
			if et := rem[len(rem)-1].ErrText; len(et) > 0 && containsStr(et, "maximum retry attempts") {
				choices = append(choices, "SGiveUp")
				gaveUp = true
				flags["gave_up"] = true

				budget = append(budget, budgetEv{rem[len(rem)-1].At, 2, fmt.Sprintf("BGiveUp %d%%Z", rem[len(rem)-1].At)})
			}
		}

		// "retries exhausted" is a legitimate end only if retrying was tried: since the stream last broke there must have
		// been at least one re-dial (the property lists exhausted retries, not "the watch is old")
		if gaveUp {
			lastBreak, attempts := -1, 0

			for i, r := range rs {
				if r.what == "end" && first[r.call] {
					lastBreak = i
				}
			}

			for i, r := range rs {
				if i > lastBreak && lastBreak >= 0 && (r.what == "dial-fail" || r.what == "msg" || r.what == "end") {
					attempts++
				}
			}

			if lastBreak >= 0 && attempts == 0 {
				problems = append(problems, "gave-up-without-retry: the adapter ended the watch with \"maximum retry attempts\" although it made no attempt to re-establish the stream after it broke")
			}
		}

		// ---- Coq case ----
		var mb, ib, ob []string

		for _, m := range matching {
			mb = append(mb, coqBool(m))
		}

		for _, e := range ref[:nInitRef] {
			if e.HasBM {
				ib = append(ib, fmt.Sprintf("Some %d", e.Pos+1))
			} else {
				ib = append(ib, "None")
			}
		}

		for i, e := range rem {
			switch {
			case e.Type == state.Errored:
				ob = append(ob, "OErr")
			case i < nInitRem:
				ob = append(ob, "OInit")
			case e.HasBM:
				ob = append(ob, fmt.Sprintf("OPos %d", e.Pos))
			default:
				ob = append(ob, "OInit")
			}
		}

		fin := "OLive"

		switch {
		case dead:
			fin = "ODead"
		default:
			// alive: either streaming or inside the retry loop; told apart by whether a stream is open
			open := false

			for _, r := range rs {
				if r.what == "msg" && r.n == 0 {
					open = true
				}

				if r.what == "end" || r.what == "dial-fail" {
					open = false
				}
			}

			if !open {
				fin = "ORetrying"
			}
		}

		if fin == "OLive" {
			// continues transparently: everything the direct watch saw has arrived
			if len(rem)-nInitRem != len(ref)-nInitRef || nInitRem != nInitRef {
				problems = append(problems, fmt.Sprintf("incomplete: live remote watch delivered %d+%d events, the direct watch %d+%d", nInitRem, len(rem)-nInitRem, nInitRef, len(ref)-nInitRef))
			}
		}

		for _, k := range []string{"resumed", "stream_broken"} {
			_ = k
		}

		if !c.NoRetry {
			sort.SliceStable(budget, func(i, j int) bool {
				if budget[i].at != budget[j].at {
					return budget[i].at < budget[j].at
				}

				return budget[i].prio < budget[j].prio
			})

			var bs []string
			for _, b := range budget {
				bs = append(bs, b.coq)
			}

			budgetCoq = coqList(bs)
		}

		coq = fmt.Sprintf("(%s, %d, %d, %s, %s, %d, %s, %s, %s, %s)",
			coqList(mb), c.Cap, c.Gap, coqBool(single), coqList(ib), p0, coqBool(!c.NoRetry),
			coqList(choices), coqList(ob), fin)

		cancel()
		synctest.Wait()
	})

	return coq, budgetCoq, problems, flags
}

func containsStr(s, sub string) bool {
	for i := 0; i+len(sub) <= len(s); i++ {
		if s[i:i+len(sub)] == sub {
			return true
		}
	}

	return false
}

func genRemoteWatch(r *rng) rwCase {
	c := rwCase{
		Kind:     pick(r, []string{"single", "kind", "kindbm", "bootstrap", "aggregated", "selector", "idquery", "idlabel", "kindfrombm", "singlefrombm", "kindbmtail"}),
		Cap:      pick(r, []int{4, 8, 8, 64}),
		Gap:      1,
		NoRetry:  r.chance(1, 10),
		Pre:      r.intn(3),
		FinalNap: int64(time.Hour),
	}

	if c.Kind == "single" && r.chance(1, 2) {
		c.Pre = 0
	}

	if c.Kind == "kindbmtail" {
		c.Pre = 1 + r.intn(3)
		c.Tail = 1 + r.intn(4)
	}

	// fault plan: the first stream survives at least its ready message
	c.Plan = append(c.Plan, watchFault{BreakAfter: 1 + r.intn(6)})

	for range r.intn(5) {
		switch x := r.intn(10); {
		case x < 2:
			c.Plan = append(c.Plan, watchFault{FailDial: true})
		case x < 3:
			c.Plan = append(c.Plan, watchFault{BreakAfter: 0})
		case x < 4:
			c.Plan = append(c.Plan, watchFault{BreakAfter: -1, Foreign: true})
		default:
			c.Plan = append(c.Plan, watchFault{BreakAfter: 1 + r.intn(5)})
		}
	}

	if r.chance(1, 3) {
		c.Plan = append(c.Plan, watchFault{BreakAfter: -1})
	}

	// what the client sees when a stream breaks or a dial fails: not always Unavailable (a peer or proxy reset shows
	// up as Canceled, Internal, Unknown, ...); never FailedPrecondition, which means "bookmark refused"
	for i := range c.Plan {
		c.Plan[i].Code = pick(r, []int{0, 0, 0, 1, 1, 13, 2, 4, 10, 8})
	}

	ids := []string{"a", "a", "b", "c"}
	n := 4 + r.intn(14)

	for range n {
		id := pick(r, ids)

		switch x := r.intn(12); {
		case x < 3:
			c.Steps = append(c.Steps, rwStep{Op: "create", ID: id, Label: pick(r, []string{"v", "v", "w", ""})})
		case x < 6:
			c.Steps = append(c.Steps, rwStep{Op: "update", ID: id})
		case x < 8:
			c.Steps = append(c.Steps, rwStep{Op: "label", ID: id, Label: pick(r, []string{"v", "w", ""})})
		case x < 9:
			c.Steps = append(c.Steps, rwStep{Op: "destroy", ID: id})
		default:
			c.Steps = append(c.Steps, rwStep{Op: "sleep", D: int64(pick(r, []time.Duration{100 * time.Millisecond, time.Second, 5 * time.Second, time.Minute}))})
		}
	}

	if r.chance(1, 12) {
		c.FinalNap = int64(30 * time.Hour) // beyond the backoff's MaxElapsedTime when re-dials keep failing
		for range 40 {
			c.Plan = append(c.Plan, watchFault{FailDial: true})
		}
	}

	if r.chance(1, 6) {
		// transport cuts that do not coincide with a message: a stream (the first, or a re-established one that may
		// still be waiting for its first event) dies after a while, possibly long after anything else happened
		for range 1 + r.intn(2) {
			i := r.intn(len(c.Plan))
			if !c.Plan[i].FailDial && !c.Plan[i].Foreign && c.Plan[i].BreakAfter != 0 {
				c.Plan[i].CutAfter = int64(pick(r, []time.Duration{2 * time.Second, time.Minute, 16 * time.Minute, 30 * time.Minute}))
			}
		}

		for range 1 + r.intn(3) {
			c.Steps = append(c.Steps, rwStep{Op: "sleep", D: int64(pick(r, []time.Duration{time.Minute, 17 * time.Minute, 31 * time.Minute}))}, rwStep{Op: "update", ID: "a"})
		}
	}

	return c
}

func rwKey(problem string) string {
	for i := range len(problem) {
		if problem[i] == ':' {
			return "remote-watch:" + problem[:i]
		}
	}

	return "remote-watch:" + problem
}

func TestC13(t *testing.T) {
	dir := outDir(t)
	rep := newReport("C13", "the real client adapter (single, kind, kind with initial bookmark, kind and single started from the head bookmark, kind+bootstrap, aggregated, label-selected watches; retries on/off) over an in-memory transport on top of the real server and inmem state (buffer capacities 4/8/64) under synctest: "+
		"scripted stream resets after N messages, failed dials, lost ready messages, a foreign server incarnation, outages long enough for the bookmark to leave the buffer, re-dials failing for longer than the backoff allows; writes continue during outages. "+
		"Recorded per case: the total order of commits and transport events (replayed on RemoteWatch.step), every event on the client channel, and a direct watch with the same options on the backing state; "+
		"the Go oracle checks remote == prefix of direct (+Errored), no gap/duplicate/reordering/re-bootstrap, completeness while alive; non-trivial = at least two kinds of fault occurred")
	rep.CorrIsSpec = true

	var cases []rwCase

	if rp := os.Getenv("VERIF_REPLAY"); rp != "" {
		b, err := os.ReadFile(rp)
		if err != nil {
			t.Fatal(err)
		}

		var rf struct {
			Case rwCase `json:"case"`
		}

		if err := json.Unmarshal(b, &rf); err != nil {
			t.Fatal(err)
		}

		cases = append(cases, rf.Case)
	} else {
		r := newRng(seed(), "C13")

		// corpus: every single break position on a short stream, per flavour
		for _, k := range []string{"single", "kind", "kindbm", "bootstrap", "aggregated", "selector", "idquery", "idlabel", "kindfrombm", "singlefrombm", "kindbmtail"} {
			for b := 1; b <= 5; b++ {
				cases = append(cases, rwCase{Kind: k, Cap: 8, Gap: 1, Pre: 2, Tail: 2, FinalNap: int64(time.Hour), Plan: []watchFault{{BreakAfter: b}},
					Steps: []rwStep{
						{Op: "create", ID: "a", Label: "v"}, {Op: "update", ID: "a"}, {Op: "create", ID: "b", Label: "w"}, {Op: "label", ID: "b", Label: "v"},
						{Op: "update", ID: "a"}, {Op: "label", ID: "a", Label: "w"}, {Op: "destroy", ID: "b"}, {Op: "sleep", D: int64(time.Minute)}, {Op: "update", ID: "a"},
					}})
			}
		}

		// corpus: the break reaches the client with another status code than Unavailable (1 = Canceled although the
		// watch's own context is alive, 13 = Internal), at resumable and non-resumable positions
		for _, k := range []string{"single", "kind", "kindbm", "bootstrap", "aggregated"} {
			for b := 1; b <= 3; b++ {
				for _, code := range []int{1, 13} {
					cases = append(cases, rwCase{Kind: k, Cap: 8, Gap: 1, Pre: 2, FinalNap: int64(time.Hour), Plan: []watchFault{{BreakAfter: b, Code: code}},
						Steps: []rwStep{
							{Op: "create", ID: "a", Label: "v"}, {Op: "update", ID: "a"}, {Op: "create", ID: "b", Label: "w"},
							{Op: "sleep", D: int64(time.Minute)}, {Op: "update", ID: "a"},
						}})
				}
			}
		}

		// corpus: the first failure comes long after the watch was established (and long after the last one)
		for _, k := range []string{"kind", "single", "aggregated", "kindbm"} {
			cases = append(cases, rwCase{Kind: k, Cap: 64, Gap: 1, Pre: 1, FinalNap: int64(time.Hour), Plan: []watchFault{{BreakAfter: 3}, {BreakAfter: 2}},
				Steps: []rwStep{
					{Op: "create", ID: "a", Label: "v"}, {Op: "update", ID: "a"}, {Op: "sleep", D: int64(20 * time.Minute)}, {Op: "update", ID: "a"}, {Op: "update", ID: "a"},
					{Op: "sleep", D: int64(time.Minute)}, {Op: "update", ID: "a"}, {Op: "sleep", D: int64(40 * time.Minute)}, {Op: "update", ID: "a"}, {Op: "update", ID: "a"}, {Op: "update", ID: "a"},
				}})
			// ... and a re-established stream stays quiet for a long time before it fails (the adapter is still inside its
			// retry loop then, waiting for the first message on the new stream)
			cases = append(cases, rwCase{Kind: k, Cap: 64, Gap: 1, Pre: 1, FinalNap: int64(time.Hour),
				Plan: []watchFault{{BreakAfter: -1, CutAfter: int64(30 * time.Minute)}, {BreakAfter: -1, CutAfter: int64(20 * time.Minute)}, {BreakAfter: -1}},
				Steps: []rwStep{
					{Op: "create", ID: "a", Label: "v"}, {Op: "update", ID: "a"}, {Op: "sleep", D: int64(31 * time.Minute)}, {Op: "sleep", D: int64(25 * time.Minute)},
					{Op: "update", ID: "a"}, {Op: "sleep", D: int64(time.Minute)}, {Op: "update", ID: "a"},
				}})
		}

		for range tier(600, 12000) {
			cases = append(cases, genRemoteWatch(r))
		}
	}

	f := newCoqFile("C13_remote_cases", []string{"RemoteWatch", "RemoteWatchCheck"}, "rwcase", "rw_mismatches")
	// the same traces on the composed machine (the ring itself on the server side), in lockstep with RemoteWatch.step
	f2 := newCoqFile("C13_ring_cases", []string{"RemoteWatch", "RemoteWatchCheck", "RemoteRingCheck"}, "rwcase", "rr_mismatches")

	// the retry log of the same runs on the backoff's clock: every retry/give-up decision must be one NextBackOff can
	// make when the budget starts at the last break of an established stream
	f3 := newCoqFile("C13_budget_cases", []string{"RetryBudget"}, "list bev", "budget_mismatches")

	var jl, jl3 []any

	for i, c := range cases {
		coq, budgetCoq, problems, flags := runRemoteWatch(t, c)

		key, _ := json.Marshal(c)
		rep.count(string(key), len(flags) >= 2)
		rep.hit(c.Kind)

		for fl := range flags {
			rep.hit(fl)
		}

		if len(flags) >= 4 {
			rep.sample(map[string]any{"case": c})
		}

		for _, p := range problems {
			rep.violateKey(i, rwKey(p), p, map[string]any{"case": c})
		}

		if coq != "" {
			f.add(coq)
			f2.add(coq)
			jl = append(jl, map[string]any{"case": c})
		}

		if budgetCoq != "" {
			f3.add(budgetCoq)
			jl3 = append(jl3, map[string]any{"case": c})
		}
	}

	f.finishSharded(t, dir, rep, jl, 400)
	f2.finishSharded(t, dir, rep, jl, 400)
	f3.finishSharded(t, dir, rep, jl3, 400)
	rep.Assumptions = append(rep.Assumptions, "the composed replay (C13_ring_cases) applies to unselected kind watches without a server-reported overrun; its server-side watcher fetches after every commit (fetch times are not observable)", "the in-memory transport delivers messages in order and fails only between messages; buffer capacity is fixed (initial = maximum) so the window test is a function of the log length")
	rep.write(t, dir)
}
