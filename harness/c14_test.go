package harness

import (
	"context"
	"encoding/json"
	"fmt"
	"os"
	"testing"

	"github.com/cosi-project/runtime/pkg/resource"
	"github.com/cosi-project/runtime/pkg/state"
	"github.com/cosi-project/runtime/pkg/state/impl/inmem"
	"github.com/cosi-project/runtime/pkg/state/impl/namespaced"
)

type lmCase struct {
	Labels map[string]string `json:"labels"`
	Key    string            `json:"key"`
	Vals   []string          `json:"vals"`
	Op     int               `json:"op"`
	Inv    bool              `json:"inv"`
}

var lmOps = []string{"OpExists", "OpEqual", "OpIn", "OpLT", "OpLTE", "OpLTNum", "OpLTENum"}

func coqStr(s string) string { return coqBytes([]byte(s)) }

func (c lmCase) term() resource.LabelTerm {
	return resource.LabelTerm{Key: c.Key, Value: c.Vals, Op: resource.LabelOp(c.Op), Invert: c.Inv}
}

// evalLabelCase evaluates one (labels, term) at every site; remote = nil means error (or server panic).
func evalLabelCase(ctx context.Context, c lmCase) (direct, viaQuery, viaList bool, remote *bool, panics []string) {
	r := newRes("n1", "T", "x", "p")
	for k, v := range c.Labels {
		r.Metadata().Labels().Set(k, v)
	}

	term := c.term()
	direct = r.Metadata().Labels().Matches(term)
	viaQuery = resource.LabelQueries{resource.LabelQuery{Terms: []resource.LabelTerm{term}}}.Matches(*r.Metadata().Labels())

	st := namespaced.NewState(inmem.Build)
	if err := st.Create(ctx, r); err != nil {
		panic(err)
	}

	kind := resource.NewMetadata("n1", "T", "", resource.VersionUndefined)
	opt := state.WithLabelQuery(resource.RawLabelQuery(resource.LabelQuery{Terms: []resource.LabelTerm{term}}))

	l, err := st.List(ctx, kind, opt)
	if err != nil {
		panic(err)
	}

	viaList = len(l.Items) == 1

	ad, _ := newRemote(st)

	rl, err := ad.List(ctx, kind, opt)
	panics = takeServerPanics()

	if err == nil && len(panics) == 0 {
		b := len(rl.Items) == 1
		remote = &b
	}

	return direct, viaQuery, viaList, remote, panics
}

func TestC14(t *testing.T) {
	dir := outDir(t)
	rep := newReport("C14", "exhaustive table: label maps over keys {a,b} x value alphabet (numeric, suffixed, spaced, negative, overflowing, non-numeric strings) x terms (7 operators x invert x key present/missing x value lists of length 0..2), "+
		"evaluated by Labels.Matches, LabelQueries.Matches, inmem List and List through client->server translation; every row compared with the model; plus random multi-term / multi-query selectors whose value at every site must equal the conjunction / disjunction of the single-term results; non-trivial = label present and operator not Exists; distinct by row")
	ctx := context.Background()

	var cases []lmCase

	if rp := os.Getenv("VERIF_REPLAY"); rp != "" {
		b, err := os.ReadFile(rp)
		if err != nil {
			t.Fatal(err)
		}

		var rf struct {
			Case lmCase `json:"case"`
		}

		// a replay of the filtered-watch phase carries a scenario instead of a table row
		var wf struct {
			Case wScenario `json:"case"`
		}

		// ... or a remote selector watch case
		var rsf struct {
			Case *rwCase `json:"remote_selector_case"`
		}

		if err := json.Unmarshal(b, &rsf); err == nil && rsf.Case != nil {
			_, _, problems, _ := runRemoteWatch(t, *rsf.Case)
			for _, p := range problems {
				rep.violateKey(0, "remote-selector:"+rwKey(p), "remote-selector: "+p, map[string]any{"remote_selector_case": rsf.Case})
			}

			rep.count("replay", true)
			rep.CorrIsSpec = true
			rep.write(t, dir)

			return
		}

		if err := json.Unmarshal(b, &wf); err == nil && len(wf.Case.Acts) > 0 {
			runWatchScenarios(t, dir, rep, "C14", []wScenario{wf.Case})
			rep.CorrIsSpec = true
			rep.write(t, dir)

			return
		}

		if err := json.Unmarshal(b, &rf); err != nil {
			t.Fatal(err)
		}

		cases = append(cases, rf.Case)
	} else {
		alpha := []string{"", "1", "10", "-3", "2Ki", "2k", " 5 ", "x", "1-2", "9223372036854775807Ki", "5 k", "007"}
		if thorough() {
			alpha = append(alpha, "1KiB", "-", "9223372036854775808", "-9223372036854775808", "2kib", "3M", "1pi", "1P", "1.5", "4 Gi", "\t7\n", "K", "1ti", "12g")
		}

		labelSets := []map[string]string{{}, {"b": "1"}}
		for _, v := range alpha {
			labelSets = append(labelSets, map[string]string{"a": v})
		}

		labelSets = append(labelSets, map[string]string{"a": "1", "b": "2"})

		var valLists [][]string

		valLists = append(valLists, nil)
		for _, v := range alpha {
			valLists = append(valLists, []string{v})
		}

		for i := 0; i+1 < len(alpha); i += 3 {
			valLists = append(valLists, []string{alpha[i], alpha[i+1]})
		}

		for _, ls := range labelSets {
			for _, key := range []string{"a", "c"} {
				for op := range lmOps {
					for _, inv := range []bool{false, true} {
						for _, vl := range valLists {
							cases = append(cases, lmCase{Labels: ls, Key: key, Vals: vl, Op: op, Inv: inv})
						}
					}
				}
			}
		}

		rep.Exhaustive = true
	}

	const shard = 1500

	var (
		f  *coqFile
		jl []any
		n  int
	)

	flush := func() {
		if f != nil {
			f.finishSharded(t, dir, rep, jl, 400)
			f, jl = nil, nil
		}
	}

	for i, c := range cases {
		direct, viaQuery, viaList, remote, panics := evalLabelCase(ctx, c)

		if f == nil {
			f = newCoqFile(fmt.Sprintf("C14_labels_%d", n/shard), []string{"Labels", "LabelsCheck"}, "lmrow", "label_mismatches")
		}

		var labs []string
		for _, k := range sortedKeys(c.Labels) {
			labs = append(labs, fmt.Sprintf("(%s, %s)", coqStr(k), coqStr(c.Labels[k])))
		}

		vals := make([]string, len(c.Vals))
		for j, v := range c.Vals {
			vals[j] = coqStr(v)
		}

		rem := "None"
		if remote != nil {
			rem = "(Some " + coqBool(*remote) + ")"
		}

		f.add(fmt.Sprintf("(%s, mkT %s %s %s %s, %s, %s, %s, %s)", coqList(labs), coqStr(c.Key), coqList(vals), lmOps[c.Op], coqBool(c.Inv),
			coqBool(direct), coqBool(viaQuery), coqBool(viaList), rem))
		jl = append(jl, map[string]any{"case": c})
		n++

		if n%shard == 0 {
			flush()
		}

		_, present := c.Labels[c.Key]
		key, _ := json.Marshal(c)
		rep.count(string(key), present && c.Op != 0)
		rep.hit(lmOps[c.Op])

		if i%4001 == 17 {
			rep.sample(map[string]any{"case": c, "direct": direct, "list": viaList, "remote": remote})
		}

		// Go-side monitors: the sites must agree with each other; the server must not panic
		if direct != viaQuery || direct != viaList {
			rep.violateKey(i, "sites-disagree", fmt.Sprintf("selector evaluation differs between sites: Labels.Matches=%v LabelQueries.Matches=%v List=%v", direct, viaQuery, viaList), map[string]any{"case": c})
		}

		for _, p := range panics {
			rep.violateKey(i, "server-panic:ConvertLabelQuery", "gRPC server handler panicked on a label query: "+p, map[string]any{"case": c})
		}

		if remote != nil && *remote != direct {
			rep.violateKey(i, "remote-differs", fmt.Sprintf("selector over gRPC gives %v, direct gives %v", *remote, direct), map[string]any{"case": c})
		}

		if remote == nil && len(panics) == 0 {
			rep.violateKey(i, "remote-error", "selector accepted directly is rejected over gRPC", map[string]any{"case": c})
		}
	}

	flush()

	// ---- multi-term queries (AND of terms, C14_query_and) and OR of queries, at every site: the expected value is
	// the conjunction / disjunction of the single-term results, which the table above ties to the model ----
	if os.Getenv("VERIF_REPLAY") == "" {
		r := newRng(seed(), "C14multi")
		vals := []string{"1", "10", "x", "2Ki", ""}

		genTerm := func() lmCase {
			c := lmCase{Key: pick(r, []string{"a", "b", "c"}), Op: r.intn(len(lmOps)), Inv: r.chance(1, 2)}
			for range r.intn(3) {
				c.Vals = append(c.Vals, pick(r, vals))
			}

			if c.Op != 0 && c.Op != 2 && len(c.Vals) == 0 {
				c.Vals = []string{pick(r, vals)}
			}

			return c
		}

		for i := range tier(400, 6000) {
			labels := map[string]string{}
			for _, k := range []string{"a", "b"} {
				if r.chance(2, 3) {
					labels[k] = pick(r, vals)
				}
			}

			res := newRes("n1", "T", "x", "p")
			for k, v := range labels {
				res.Metadata().Labels().Set(k, v)
			}

			var (
				queries [][]lmCase
				opts    []state.ListOption
				lq      resource.LabelQueries
				want    bool
			)

			for range 1 + r.intn(2) {
				var (
					q     []lmCase
					terms []resource.LabelTerm
				)

				all := true

				// an alternative without terms matches everything (and so does the whole selector)
				nTerms := 1 + r.intn(3)
				if r.chance(1, 6) {
					nTerms = 0
				}

				for range nTerms {
					tc := genTerm()
					q = append(q, tc)
					terms = append(terms, tc.term())
					all = all && res.Metadata().Labels().Matches(tc.term())
				}

				want = want || all
				queries = append(queries, q)
				opts = append(opts, state.WithLabelQuery(resource.RawLabelQuery(resource.LabelQuery{Terms: terms})))
				lq = append(lq, resource.LabelQuery{Terms: terms})
			}

			replay := map[string]any{"multi": queries, "labels": labels}

			st := namespaced.NewState(inmem.Build)
			if err := st.Create(ctx, res); err != nil {
				t.Fatal(err)
			}

			kind := resource.NewMetadata("n1", "T", "", resource.VersionUndefined)

			l, err := st.List(ctx, kind, opts...)
			if err != nil {
				t.Fatal(err)
			}

			ad, _ := newRemote(st)
			rl, rerr := ad.List(ctx, kind, opts...)

			for _, p := range takeServerPanics() {
				rep.violateKey(i, "server-panic:ConvertLabelQuery", "gRPC server handler panicked on a label query: "+p, replay)
			}

			rep.count(fmt.Sprint("multi", i), len(queries) > 1 || len(queries[0]) != 1)
			rep.hit("multi_term")

			if got := lq.Matches(*res.Metadata().Labels()); got != want {
				rep.violateKey(i, "multi-term:LabelQueries.Matches", fmt.Sprintf("multi-term: LabelQueries.Matches gives %v, the terms give %v", got, want), replay)
			}

			if got := len(l.Items) == 1; got != want {
				rep.violateKey(i, "multi-term:List", fmt.Sprintf("multi-term: inmem List gives %v, the terms give %v", got, want), replay)
			}

			if rerr != nil {
				rep.violateKey(i, "multi-term:remote-error", "multi-term query accepted directly is rejected over gRPC: "+rerr.Error(), replay)
			} else if got := len(rl.Items) == 1; got != want {
				rep.violateKey(i, "multi-term:remote-differs", fmt.Sprintf("multi-term: List over gRPC gives %v, the terms give %v", got, want), replay)
			}
		}
	}

	// ---- filtered kind watches (plain and aggregated; the gRPC site reuses this server-side filter, its selector translation is the table above): every kind watch carries a label selector,
	// an ID query or both; every delivered batch is compared with the model's rewriting filter (WatchCheck.kind_view) and
	// the replayed events with the filtered List ----
	if os.Getenv("VERIF_REPLAY") == "" {
		r := newRng(seed(), "C14watch")

		var scs []wScenario

		for i := range tier(150, 3000) {
			sc := genWatchScenario(r, 12+r.intn(40), "inmem")

			for j := range sc.Acts {
				a := &sc.Acts[j]
				if a.Op != "start" {
					continue
				}

				if a.Mode == "single" {
					a.Mode, a.ID = pick(r, []string{"kind", "agg"}), ""
				}

				if a.Start != "default" {
					a.Start, a.N, a.Pos = "default", 0, 0
				}

				for len(a.Sel) == 0 && (len(a.IDs) == 0 || i%3 != 0) {
					a.Sel = genSel(r)
				}

				if len(a.IDs) == 0 && r.chance(1, 2) {
					a.IDs = pick(r, [][]string{{"a"}, {"a", "b"}, {"b", "c"}, {"c"}})
				}
			}

			scs = append(scs, sc)
		}

		runWatchScenarios(t, dir, rep, "C14", scs)

		// the gRPC site of a filtered watch, including what happens to the selector when the client re-establishes the
		// stream after a transport failure: remote events must stay a prefix of a direct watch with the same selector
		for i := range tier(40, 600) {
			c := genRemoteWatch(r)
			c.Kind = "selector"

			_, _, problems, _ := runRemoteWatch(t, c)

			rep.count(fmt.Sprint("remote-selector", i), true)
			rep.hit("remote_selector_watch")

			for _, p := range problems {
				rep.violateKey(i, "remote-selector:"+rwKey(p), "remote-selector: "+p, map[string]any{"remote_selector_case": c})
			}
		}
	}

	rep.CorrIsSpec = true
	rep.Assumptions = append(rep.Assumptions, "ASCII label values (strings.ToLower/TrimSpace on non-ASCII runes are outside the byte model)", "regexp engine for ID queries is trusted (ID queries are an opaque predicate in the model)")
	rep.write(t, dir)
}
