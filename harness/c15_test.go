package harness

import (
	"context"
	"encoding/json"
	"fmt"
	"os"
	"regexp"
	"sort"
	"strings"
	"sync"
	"sync/atomic"
	"testing"
	"testing/synctest"
	"time"

	"go.uber.org/zap"

	"github.com/cosi-project/runtime/pkg/controller"
	cruntime "github.com/cosi-project/runtime/pkg/controller/runtime"
	"github.com/cosi-project/runtime/pkg/controller/runtime/options"
	"github.com/cosi-project/runtime/pkg/resource"
	"github.com/cosi-project/runtime/pkg/state"
	"github.com/cosi-project/runtime/pkg/state/impl/inmem"
	"github.com/cosi-project/runtime/pkg/state/impl/namespaced"
)

// ---- white-box: operation strings on the real cache ----------------------------------------------

type cacheOp struct {
	Op      string      `json:"op"` // append | mark | put | remove | get | list | ctx | ctxstate | ctxcancel
	ID      string      `json:"id,omitempty"`
	Ver     int         `json:"ver,omitempty"`
	Tearing bool        `json:"tearing,omitempty"`
	Label   string      `json:"label,omitempty"`
	Sel     [][]selTerm `json:"sel,omitempty"`
	K       int         `json:"k,omitempty"`
}

func cacheRes(o cacheOp, t0 time.Time) *Res {
	r := newRes("n1", "T", o.ID, fmt.Sprintf("p%d", o.Ver))
	r.Metadata().SetCreated(t0)
	r.Metadata().SetUpdated(t0)

	v, _ := resource.ParseVersion(fmt.Sprint(o.Ver)) //nolint:errcheck
	r.Metadata().SetVersion(v)

	if o.Tearing {
		r.Metadata().SetPhase(resource.PhaseTearingDown)
	}

	if o.Label != "" {
		r.Metadata().Labels().Set("l0", o.Label)
	}

	return r
}

func runCacheCase(t *testing.T, ops []cacheOp) (coq string, flags map[string]bool, problems []string) {
	flags = map[string]bool{}

	synctest.Test(t, func(t *testing.T) {
		ctx, cancel := context.WithCancel(context.Background())
		defer cancel()

		t0 := time.Now()
		c := cruntime.VerifNewResourceCache([]options.CachedResource{{Namespace: "n1", Type: "T"}})
		kind := resource.NewMetadata("n1", "T", "", resource.VersionUndefined)

		var (
			items   []string
			ctxs    = map[int]context.Context{}
			parents = map[int]context.CancelFunc{}
			ctxID   = map[int]string{}
			must    = map[int]string{} // contexts that have to be cancelled by now, and why
		)

		// a teardown-bound context is cancelled when its resource is torn down or removed (Go-side monitor)
		gone := func(id, why string) {
			for k, cid := range ctxID {
				if cid == id {
					if _, ok := must[k]; !ok {
						must[k] = why
					}
				}
			}
		}

		// runs f in a goroutine; reports whether it returned before everything in the bubble blocked
		blocked := func(f func(ctx context.Context)) bool {
			cctx, ccancel := context.WithCancel(ctx)
			done := make(chan struct{})

			go func() {
				defer close(done)

				f(cctx)
			}()

			synctest.Wait()

			select {
			case <-done:
				ccancel()

				return false
			default:
				ccancel() // abandon the blocked reader
				<-done

				return true
			}
		}

		for _, o := range ops {
			switch o.Op {
			case "append":
				r := cacheRes(o, t0)
				c.CacheAppend(r)
				items = append(items, "(KAppend "+coqRes(r, t0)+")")
			case "mark":
				isB := false

				if h, b := c.IsHandledBootstrapped("n1", "T"); h {
					isB = b
				}

				if isB {
					continue // closing twice panics; the runtime never does it
				}

				c.MarkBootstrapped("n1", "T")
				items = append(items, "KMark")
			case "put":
				r := cacheRes(o, t0)
				c.CachePut(r)
				synctest.Wait()

				if o.Tearing {
					gone(o.ID, "its resource was put in phase tearing down")
				}
				items = append(items, "(KPut "+coqRes(r, t0)+")")
			case "remove":
				r := cacheRes(o, t0)
				c.CacheRemove(r)
				synctest.Wait()
				gone(o.ID, "its resource was removed")
				items = append(items, "(KRemove "+coqRes(r, t0)+")")
			case "get":
				var (
					res resource.Resource
					err error
				)

				isBlocked := blocked(func(cctx context.Context) {
					res, err = c.Get(cctx, resource.NewMetadata("n1", "T", o.ID, resource.VersionUndefined))
				})

				switch {
				case isBlocked:
					flags["reader_blocked"] = true
					items = append(items, fmt.Sprintf("(KGet %s None)", coqAtom(o.ID)))
				case err != nil:
					items = append(items, fmt.Sprintf("(KGet %s (Some None))", coqAtom(o.ID)))
				default:
					items = append(items, fmt.Sprintf("(KGet %s (Some (Some %s)))", coqAtom(o.ID), coqRes(res, t0)))
				}
			case "list":
				var (
					l   resource.List
					err error
				)

				var lopts []state.ListOption

				for _, q := range o.Sel {
					var lo []resource.LabelQueryOption
					for _, tm := range q {
						lo = append(lo, termOpts(tm))
					}

					lopts = append(lopts, state.WithLabelQuery(lo...))
				}

				isBlocked := blocked(func(cctx context.Context) { l, err = c.List(cctx, kind, lopts...) })

				switch {
				case isBlocked:
					flags["reader_blocked"] = true
					items = append(items, fmt.Sprintf("(KList %s None)", coqSel(o.Sel)))
				case err != nil:
					t.Fatalf("list: %v", err)
				default:
					rendered := make([]string, len(l.Items))
					for i, r := range l.Items {
						rendered[i] = coqRes(r, t0)
					}

					if len(o.Sel) > 0 {
						flags["filtered_list"] = true
					}

					items = append(items, fmt.Sprintf("(KList %s (Some %s))", coqSel(o.Sel), coqList(rendered)))

					if len(o.Sel) == 0 {
						// ID selectors: the cached listing under a regular expression is the unfiltered listing (compared with
						// the model above) restricted to the ids the expression matches - literal, anchored or not, empty
						for _, re := range idQueryCorpus {
							fl, ferr := c.List(ctx, kind, state.WithIDQuery(resource.IDRegexpMatch(re)))
							if ferr != nil {
								t.Fatalf("list with id query: %v", ferr)
							}

							var want, got []string

							for _, r := range l.Items {
								if re.MatchString(r.Metadata().ID()) {
									want = append(want, r.Metadata().ID()+"@"+r.Metadata().Version().String())
								}
							}

							for _, r := range fl.Items {
								got = append(got, r.Metadata().ID()+"@"+r.Metadata().Version().String())
							}

							if fmt.Sprint(want) != fmt.Sprint(got) {
								problems = append(problems, fmt.Sprintf("cached-id-list-differs: cached List with ID query %q returns %v, the cached kind holds %v of which %v match", re.String(), got, rendered0(l), want))
							}

							if len(want) > 0 && len(want) < len(l.Items) {
								flags["id_query_selects_a_proper_subset"] = true
							}
						}
					}
				}
			case "ctx":
				var (
					rctx context.Context
					err  error
				)

				// each teardown-bound context has its own parent, so that one reader can leave while others stay
				pctx, pcancel := context.WithCancel(ctx)
				parents[o.K] = pcancel

				isBlocked := blocked(func(cctx context.Context) {
					// the returned context must outlive the call: derive it from the long-lived parent once unblocked
					_ = cctx
					rctx, err = c.ContextWithTeardown(pctx, resource.NewMetadata("n1", "T", o.ID, resource.VersionUndefined))
				})

				if isBlocked {
					// cannot abandon a call made with the long-lived context: only issue ctx before bootstrap via cctx
					t.Fatal("ctx op generated before bootstrap")
				}

				if err != nil {
					t.Fatalf("ctx: %v", err)
				}

				synctest.Wait()
				ctxs[o.K] = rctx
				ctxID[o.K] = o.ID
				items = append(items, fmt.Sprintf("(KCtx %s %s (Some %s))", coqN(uint64(o.K)), coqAtom(o.ID), coqBool(rctx.Err() != nil)))

				if rctx.Err() != nil {
					flags["ctx_cancelled_at_once"] = true
				}
			case "ctxcancel":
				if pc, ok := parents[o.K]; ok {
					pc()
					synctest.Wait()
					items = append(items, fmt.Sprintf("(KCtxCancel %s)", coqN(uint64(o.K))))
					flags["ctx_parent_cancelled"] = true
				}
			case "ctxstate":
				if rctx, ok := ctxs[o.K]; ok {
					synctest.Wait()
					items = append(items, fmt.Sprintf("(KCtxState %s %s)", coqN(uint64(o.K)), coqBool(rctx.Err() != nil)))

					if rctx.Err() != nil {
						flags["ctx_cancelled"] = true
					}
				}
			}
		}

		// final state of every context
		ks := make([]int, 0, len(ctxs))
		for k := range ctxs {
			ks = append(ks, k)
		}

		sort.Ints(ks)
		synctest.Wait()

		for _, k := range ks {
			items = append(items, fmt.Sprintf("(KCtxState %s %s)", coqN(uint64(k)), coqBool(ctxs[k].Err() != nil)))

			if why, ok := must[k]; ok && ctxs[k].Err() == nil {
				problems = append(problems, fmt.Sprintf("ctx-not-cancelled: the teardown-bound context %d of %q is still live although %s after it was taken", k, ctxID[k], why))
			}
		}

		coq = coqList(items)

		cancel()
		synctest.Wait()
	})

	return coq, flags, problems
}

func genCacheCase(r *rng) []cacheOp {
	var (
		ops   []cacheOp
		ids   = []string{"a", "ab", "b", "ba"} // sorted; ids that extend each other (prefix / substring selectors must tell them apart)
		ver   = map[string]int{}
		nextK = 0
		boot  = false
	)

	// bootstrap phase: sorted snapshot, possibly reads before the mark
	n := r.intn(4)
	for i := range n {
		id := ids[i]
		ver[id] = 1 + r.intn(3)
		ops = append(ops, cacheOp{Op: "append", ID: id, Ver: ver[id], Tearing: r.chance(1, 5), Label: pick(r, []string{"", "v0", "v1"})})

		if r.chance(1, 4) {
			ops = append(ops, cacheOp{Op: pick(r, []string{"get", "list"}), ID: pick(r, ids)})
		}
	}

	if r.chance(1, 3) {
		ops = append(ops, cacheOp{Op: "get", ID: pick(r, ids)})
	}

	ops = append(ops, cacheOp{Op: "mark"})
	boot = true
	_ = boot

	for range 5 + r.intn(25) {
		id := pick(r, ids)

		switch x := r.intn(100); {
		case x < 30:
			ver[id]++
			ops = append(ops, cacheOp{Op: "put", ID: id, Ver: ver[id], Tearing: r.chance(1, 4), Label: pick(r, []string{"", "v0", "v1"})})
		case x < 42:
			ops = append(ops, cacheOp{Op: "remove", ID: id, Ver: ver[id]})
		case x < 60:
			ops = append(ops, cacheOp{Op: "get", ID: id})
		case x < 72:
			o := cacheOp{Op: "list"}
			if r.chance(1, 2) {
				o.Sel = genSel(r)
			}

			ops = append(ops, o)
		case x < 86:
			ops = append(ops, cacheOp{Op: "ctx", ID: id, K: nextK})
			nextK++

			// several readers bound to the same resource; one of them may leave before the teardown
			if r.chance(1, 3) {
				ops = append(ops, cacheOp{Op: "ctx", ID: id, K: nextK})
				nextK++

				if r.chance(1, 2) {
					ops = append(ops, cacheOp{Op: "ctxcancel", K: nextK - 1 - r.intn(2)})
				}
			}
		case x < 90:
			if nextK > 0 {
				ops = append(ops, cacheOp{Op: "ctxcancel", K: r.intn(nextK)})
			}
		default:
			if nextK > 0 {
				ops = append(ops, cacheOp{Op: "ctxstate", K: r.intn(nextK)})
			}
		}
	}

	return ops
}

// ---- a reader overlapping a cache update: the cached objects' Metadata() can park the reader once --------

// idQueryCorpus: ID selectors evaluated on cached listings (ids in the op strings are short and extend each other).
var idQueryCorpus = []*regexp.Regexp{
	regexp.MustCompile("a"), regexp.MustCompile("b"), regexp.MustCompile("ab"), regexp.MustCompile(""), regexp.MustCompile("^a$"),
	regexp.MustCompile("^a"), regexp.MustCompile("b$"), regexp.MustCompile("[ac]"), regexp.MustCompile("^(a|ab)$"),
}

func rendered0(l resource.List) []string {
	out := make([]string, 0, len(l.Items))
	for _, r := range l.Items {
		out = append(out, r.Metadata().ID())
	}

	return out
}

type luCase struct {
	Init   []string `json:"init"`   // ids in the cache (sorted), all labelled k=v
	ParkAt int      `json:"park"`   // the reader parks when it first touches this item
	Update string   `json:"update"` // put:<id> | remove:<id> | update:<id>, applied while the reader is parked
	Query  string   `json:"query"`  // label | id | none
	Spare  bool     `json:"spare"`  // give the cache's slice spare capacity first (append + remove)
}

type parkRes struct {
	*Res
	hook func()
}

func (p *parkRes) Metadata() *resource.Metadata {
	if p.hook != nil {
		p.hook()
	}

	return p.Res.Metadata()
}

// unfiltered lists touch the items only through DeepCopy
func (p *parkRes) DeepCopy() resource.Resource { //nolint:ireturn
	if p.hook != nil {
		p.hook()
	}

	return p.Res.DeepCopy()
}

// runListDuringUpdate: List must return the cache contents (matching the query) as they were before or after the
// overlapping update - never a mixture, never a panic.
func runListDuringUpdate(t *testing.T, c luCase) (problems []string) {
	// plain goroutines and channels (no synctest bubble): an implementation that reads the items while holding the cache
	// lock is legitimate, and then the overlapping update simply waits for the reader - which a bubble cannot express
	ctx, cancel := context.WithCancel(context.Background())
	defer cancel()

	cache := cruntime.VerifNewResourceCache([]options.CachedResource{{Namespace: "n1", Type: "T"}})
	kind := resource.NewMetadata("n1", "T", "", resource.VersionUndefined)

	mk := func(id, payload string) *Res {
		r := newRes("n1", "T", id, payload)
		r.Metadata().Labels().Set("k", "v")
		v, _ := resource.ParseVersion("1") //nolint:errcheck
		r.Metadata().SetVersion(v)

		return r
	}

	var (
		armed   atomic.Bool
		parked  = make(chan struct{})
		release = make(chan struct{})
	)

	for i, id := range c.Init {
		pr := &parkRes{Res: mk(id, "p0")}

		if i == c.ParkAt {
			pr.hook = func() {
				if armed.CompareAndSwap(true, false) {
					close(parked)
					<-release
				}
			}
		}

		cache.CacheAppend(pr)
	}

	cache.MarkBootstrapped("n1", "T")

	if c.Spare {
		x := mk("zz", "p0")
		cache.CachePut(x)
		cache.CacheRemove(x)
	}

	render := func(l resource.List) string {
		s := ""
		for _, r := range l.Items {
			s += r.Metadata().ID() + "=" + payloadOf(r) + " "
		}

		return s
	}

	var lopts []state.ListOption

	switch c.Query {
	case "label":
		lopts = append(lopts, state.WithLabelQuery(resource.LabelEqual("k", "v")))
	case "id":
		lopts = append(lopts, state.WithIDQuery(resource.IDRegexpMatch(regexp.MustCompile("^[a-z0-9]$"))))
	}

	before, err := cache.List(ctx, kind, lopts...)
	if err != nil {
		t.Fatal(err)
	}

	var (
		got      resource.List
		gotErr   error
		panicked any
		done     = make(chan struct{})
	)

	armed.Store(true)

	go func() {
		defer close(done)
		defer func() { panicked = recover() }()

		got, gotErr = cache.List(ctx, kind, lopts...)
	}()

	select {
	case <-parked:
	case <-done:
		// the reader never touched that item through Metadata(): nothing to overlap with
		armed.Store(false)

		return nil
	case <-time.After(5 * time.Second):
		t.Fatal("list-during-update: the reader neither parked nor finished")
	}

	updated := make(chan struct{})

	go func() {
		defer close(updated)

		op, id, _ := strings.Cut(c.Update, ":")

		switch op {
		case "put":
			cache.CachePut(mk(id, "p0"))
		case "update":
			cache.CachePut(mk(id, "p1"))
		case "remove":
			cache.CacheRemove(mk(id, "p0"))
		}
	}()

	// the update lands while the reader is parked - unless the reader holds the cache lock, in which case it lands right
	// after the reader; both are fine
	select {
	case <-updated:
	case <-time.After(50 * time.Millisecond):
	}

	close(release)
	<-done
	<-updated

	after, err := cache.List(ctx, kind, lopts...)
	if err != nil {
		t.Fatal(err)
	}

	switch {
	case panicked != nil:
		problems = append(problems, fmt.Sprintf("list-during-update: a cached List overlapping %s panicked: %v", c.Update, panicked))
	case gotErr != nil:
		problems = append(problems, fmt.Sprintf("list-during-update: a cached List overlapping %s failed: %v", c.Update, gotErr))
	case render(got) != render(before) && render(got) != render(after):
		problems = append(problems, fmt.Sprintf("list-during-update: a cached List overlapping %s returned {%s}; the cache held {%s} before and {%s} after the update", c.Update, render(got), render(before), render(after)))
	}

	return problems
}

// ---- black-box: cached vs uncached reads through a running runtime -----------------------------------

type cacheProbe struct {
	mu    sync.Mutex
	seen  []string // "id@version" observed by Reconcile through the cached adapter
	stale []string
	st    state.State
}

func (p *cacheProbe) Name() string { return "cacheprobe" }

func (p *cacheProbe) Settings() controller.QSettings {
	return controller.QSettings{Inputs: []controller.Input{{Namespace: "n1", Type: "T", Kind: controller.InputQPrimary}}}
}

func (p *cacheProbe) Reconcile(ctx context.Context, _ *zap.Logger, r controller.QRuntime, ptr resource.Pointer) error {
	cached, cerr := r.Get(ctx, ptr)
	direct, derr := p.st.Get(ctx, ptr)

	p.mu.Lock()
	defer p.mu.Unlock()

	switch {
	case cerr != nil && derr != nil:
		p.seen = append(p.seen, ptr.ID()+"@gone")
	case cerr != nil || derr != nil:
		p.stale = append(p.stale, fmt.Sprintf("%s: cached err=%v direct err=%v", ptr.ID(), cerr, derr))
	default:
		p.seen = append(p.seen, ptr.ID()+"@"+cached.Metadata().Version().String())

		if cached.Metadata().Version().Value() < direct.Metadata().Version().Value() {
			p.stale = append(p.stale, fmt.Sprintf("%s: reconcile read cached version %s but the state has %s", ptr.ID(), cached.Metadata().Version(), direct.Metadata().Version()))
		}
	}

	return nil
}

func (p *cacheProbe) MapInput(context.Context, *zap.Logger, controller.QRuntime, controller.ReducedResourceMetadata) ([]resource.Pointer, error) {
	return nil, nil
}

type cacheRTCase struct {
	Pre   []sOp `json:"pre"`             // writes before the runtime starts
	Post  []sOp `json:"post"`            // writes after it started
	Burst int   `json:"burst,omitempty"` // writes issued back to back between two quiescence points (0/1 = one)
	// the runtime sees the state through a re-batching layer (a remote or proxying CoreState): aggregated watch batches
	// that follow each other within a millisecond are merged, so a batch may carry events on both sides of Bootstrapped
	Coalesce bool `json:"coalesce,omitempty"`
}

type coalescingState struct{ state.State }

func (c *coalescingState) WatchKindAggregated(ctx context.Context, kind resource.Kind, ch chan<- []state.Event, opts ...state.WatchKindOption) error {
	in := make(chan []state.Event)

	if err := c.State.WatchKindAggregated(ctx, kind, in, opts...); err != nil {
		return err
	}

	go func() {
		for {
			var held []state.Event

			select {
			case <-ctx.Done():
				return
			case b := <-in:
				held = append(held, b...)
			}

			timer := time.NewTimer(time.Millisecond)

		more:
			for {
				select {
				case <-ctx.Done():
					return
				case b := <-in:
					held = append(held, b...)
				case <-timer.C:
					break more
				}
			}

			select {
			case <-ctx.Done():
				return
			case ch <- held:
			}
		}
	}()

	return nil
}

func runCacheRTCase(t *testing.T, c cacheRTCase) (problems []string) {
	synctest.Test(t, func(t *testing.T) {
		ctx, cancel := context.WithCancel(context.Background())
		defer cancel()

		st := state.WrapCore(namespaced.NewState(inmem.Build))
		t0 := time.Now()
		lastVer := map[string]uint64{}

		var mu sync.Mutex

		for _, o := range c.Pre {
			execOp(ctx, st, o, t0, lastVer, &mu)
		}

		var rtState state.State = st
		if c.Coalesce {
			rtState = &coalescingState{State: st}
		}

		rt, err := cruntime.NewRuntime(rtState, zap.NewNop(), options.WithCachedResource("n1", "T"))
		if err != nil {
			t.Fatal(err)
		}

		probe := &cacheProbe{st: st}
		if err := rt.RegisterQController(probe); err != nil {
			t.Fatal(err)
		}

		done := make(chan error, 1)

		go func() { done <- rt.Run(ctx) }()

		synctest.Wait()

		cachedState := rt.CachedState()
		kind := resource.NewMetadata("n1", "T", "", resource.VersionUndefined)

		compare := func(when string) {
			cl, err1 := cachedState.List(ctx, kind)
			dl, err2 := st.List(ctx, kind)

			if err1 != nil || err2 != nil {
				problems = append(problems, fmt.Sprintf("cache-list-error: %v %v", err1, err2))

				return
			}

			render := func(l resource.List) string {
				s := ""
				for _, r := range l.Items {
					s += r.Metadata().ID() + "@" + r.Metadata().Version().String() + "/" + r.Metadata().Phase().String() + "/" + fmt.Sprint(*r.Metadata().Finalizers()) + "/" + payloadOf(r) + " "
				}

				return s
			}

			if render(cl) != render(dl) {
				problems = append(problems, fmt.Sprintf("cache-differs: at quiescence (%s) cached list is [%s], state has [%s]", when, render(cl), render(dl)))
			}
		}

		// behind the re-batching layer the first writes are issued while the bootstrap batch is still held back, and
		// quiescence includes the millisecond the layer waits for more
		if !c.Coalesce {
			compare("after start")
		}

		burst := max(c.Burst, 1)

		for i, o := range c.Post {
			execOp(ctx, st, o, t0, lastVer, &mu)

			if (i+1)%burst == 0 || i == len(c.Post)-1 {
				if c.Coalesce {
					time.Sleep(10 * time.Millisecond)
				}

				synctest.Wait()
				compare(fmt.Sprintf("after write %d", i))
			}
		}

		// with writes issued back to back the cache may legitimately lag the state when a reconcile runs (the property
		// bounds the cache by the notification that woke the reader, not by the state); the per-reconcile comparison with
		// the state is meaningful only when every write is followed by quiescence
		if burst == 1 && !c.Coalesce {
			probe.mu.Lock()
			for _, s := range probe.stale {
				problems = append(problems, "cache-behind-notification: "+s)
			}
			probe.mu.Unlock()
		}

		cancel()
		<-done
		synctest.Wait()
	})

	return problems
}

func genCacheRTCase(r *rng) cacheRTCase {
	var c cacheRTCase

	present := map[string]bool{}

	for range r.intn(5) {
		c.Pre = append(c.Pre, *genWrite(r, present))
	}

	c.Burst = pick(r, []int{1, 1, 2, 3, 5, 8})
	c.Coalesce = r.chance(1, 3)

	for range 3 + r.intn(12) {
		w := genWrite(r, present)
		c.Post = append(c.Post, *w)

		// destroy immediately followed by a re-creation of the same id (lands in one watch batch when Burst > 1)
		if w.Op == "destroy" && r.chance(1, 2) {
			present[w.ID] = true
			c.Post = append(c.Post, sOp{NS: "n1", Typ: "T", ID: w.ID, Op: "create", VerRel: "undef", Exp: "any", Payload: "re"})
		}
	}

	return c
}

func TestC15(t *testing.T) {
	dir := outDir(t)
	rep := newReport("C15", "white-box: operation strings on the real cache.ResourceCache (append during bootstrap, mark, put/remove, get/list with and without selectors, several teardown-bound contexts per resource whose readers may leave; readers issued before the mark are observed blocked under synctest) compared step by step with the model; "+
		"a cached List overlapping one cache update (the reader is parked at every item in turn, for inserts, removals and updates, with label / ID / no query, with and without spare slice capacity) must return the contents before or after the update; "+
		"black-box: a real Runtime with a cached kind, writes before and after Run, writes issued singly or in back-to-back bursts (incl. destroy + re-create of one id in one batch), at every quiescence CachedState().List == state List, and a probe QController checks that its cached read is never older than the state at reconcile time; "+
		"non-trivial = a blocked reader, filtered list or cancelled context occurred; distinct by op list")

	type c15Case struct {
		Kind string      `json:"kind"`
		Ops  []cacheOp   `json:"ops,omitempty"`
		RT   cacheRTCase `json:"rt,omitempty"`
		LU   luCase      `json:"lu,omitempty"`
	}

	var cases []c15Case

	if rp := os.Getenv("VERIF_REPLAY"); rp != "" {
		b, err := os.ReadFile(rp)
		if err != nil {
			t.Fatal(err)
		}

		var rf struct {
			Case c15Case `json:"case"`
		}

		if err := json.Unmarshal(b, &rf); err != nil {
			t.Fatal(err)
		}

		cases = append(cases, rf.Case)
	} else {
		r := newRng(seed(), "C15")

		for range tier(500, 12000) {
			cases = append(cases, c15Case{Kind: "wb", Ops: genCacheCase(r)})
		}

		for range tier(150, 4000) {
			cases = append(cases, c15Case{Kind: "rt", RT: genCacheRTCase(r)})
		}

		// a cached List overlapping one cache update, at every item of the cache, for every kind of update
		for _, init := range [][]string{{"a", "c", "d"}, {"a", "b", "c"}, {"b"}, {"a", "b", "c", "d", "e"}} {
			for park := range init {
				for _, up := range []string{"put:b", "put:e", "put:0", "remove:a", "remove:b", "remove:c", "update:a", "update:c"} {
					for _, q := range []string{"label", "id", "none"} {
						cases = append(cases, c15Case{Kind: "lu", LU: luCase{Init: init, ParkAt: park, Update: up, Query: q, Spare: (park+len(up))%2 == 0}})
					}
				}
			}
		}
	}

	const shard = 250

	var (
		f  *coqFile
		jl []any
		n  int
	)

	flush := func() {
		if f != nil {
			f.finishSharded(t, dir, rep, jl, 400)
			f, jl = nil, nil
		}
	}

	for i, c := range cases {
		key, _ := json.Marshal(c)

		switch c.Kind {
		case "wb":
			coq, flags, problems := runCacheCase(t, c.Ops)

			for _, p := range problems {
				rep.violateKey(i, strings.SplitN(p, ":", 2)[0], p, map[string]any{"case": c})
			}

			if f == nil {
				f = newCoqFile(fmt.Sprintf("C15_cache_%d", n/shard), []string{"Store", "StoreCheck", "Ring", "WatchCheck", "Cache", "CacheCheck"}, "list cobs", "cache_mismatches")
			}

			f.add(coq)
			jl = append(jl, map[string]any{"case": c})
			n++

			if n%shard == 0 {
				flush()
			}

			rep.count(string(key), len(flags) > 0)

			for fl := range flags {
				rep.hit(fl)
			}

			if len(flags) >= 3 {
				rep.sample(map[string]any{"ops": c.Ops, "observed_prefix": coq[:min(len(coq), 500)]})
			}
		case "lu":
			problems := runListDuringUpdate(t, c.LU)
			rep.count(string(key), true)
			rep.hit("list_during_update")

			for _, p := range problems {
				rep.violateKey(i, strings.SplitN(p, ":", 2)[0], p, map[string]any{"case": c})
			}
		case "rt":
			problems := runCacheRTCase(t, c.RT)
			rep.count(string(key), len(c.RT.Pre) > 0)
			rep.hit("runtime_case")

			for _, p := range problems {
				rep.violateKey(i, p[:min(len(p), 20)], p, map[string]any{"case": c})
			}
		}
	}

	flush()
	rep.Assumptions = append(rep.Assumptions, "slices.BinarySearchFunc specification on a sorted slice", "the kind watch feeding the cache delivers the exact event log (C02)")
	rep.write(t, dir)
}
