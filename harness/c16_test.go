package harness

import (
	"context"
	"encoding/json"
	"errors"
	"fmt"
	"os"
	"runtime"
	"strings"
	"sync"
	"sync/atomic"
	"testing"
	"testing/synctest"
	"time"

	"go.uber.org/zap"

	"github.com/cosi-project/runtime/pkg/controller"
	cruntime "github.com/cosi-project/runtime/pkg/controller/runtime"
	"github.com/cosi-project/runtime/pkg/resource"
	"github.com/cosi-project/runtime/pkg/state"
	"github.com/cosi-project/runtime/pkg/state/impl/inmem"
	"github.com/cosi-project/runtime/pkg/state/impl/namespaced"
	"github.com/cosi-project/runtime/pkg/task"
)

// one scripted invocation of Run / RunHook / RunTask
type rInv struct {
	Out   string `json:"out"` // err | panic | nil
	Reset bool   `json:"reset,omitempty"`
	Dur   int64  `json:"dur,omitempty"`   // virtual ns the invocation lasts
	Track bool   `json:"track,omitempty"` // controller only: the invocation enables output tracking before it ends
}

type c16Case struct {
	Kind   string     `json:"kind"` // controller | hook | task | watcherr | cancel | isolation
	Script []rInv     `json:"script,omitempty"`
	N      int        `json:"n,omitempty"` // watcherr: events before the failure; cancel: store call index at which to cancel
	Sc     *pScenario `json:"sc,omitempty"`
}

func (i rInv) coq() string {
	out := "RFail"
	if i.Out == "nil" {
		out = "RNil"
	}

	return fmt.Sprintf("(mkRinv %s %s %s)", out, coqBool(i.Reset), coqZ(i.Dur))
}

type restartProbe struct {
	script []rInv
	mu     sync.Mutex
	starts []time.Duration
	ends   []time.Duration
	t0     time.Time
	calls  int
	gotTok []bool
}

func (p *restartProbe) Name() string                 { return "restarter" }
func (p *restartProbe) Inputs() []controller.Input   { return nil }
func (p *restartProbe) Outputs() []controller.Output { return nil }

func (p *restartProbe) invoke(ctx context.Context, waitToken func() bool, reset func(), track func()) error {
	p.mu.Lock()
	i := p.calls
	p.calls++
	p.starts = append(p.starts, time.Since(p.t0))
	p.mu.Unlock()

	tok := waitToken()

	p.mu.Lock()
	p.gotTok = append(p.gotTok, tok)
	p.mu.Unlock()

	if i >= len(p.script) {
		<-ctx.Done()

		return nil
	}

	inv := p.script[i]

	if inv.Dur > 0 {
		select {
		case <-ctx.Done():
			return nil
		case <-time.After(time.Duration(inv.Dur)):
		}
	}

	if inv.Reset && reset != nil {
		reset()
	}

	if inv.Track && track != nil {
		track()
	}

	p.mu.Lock()
	p.ends = append(p.ends, time.Since(p.t0))
	p.mu.Unlock()

	switch inv.Out {
	case "panic":
		panic("scripted panic")
	case "nil":
		return nil
	}

	return errors.New("scripted failure")
}

func (p *restartProbe) Run(ctx context.Context, r controller.Runtime, _ *zap.Logger) error {
	return p.invoke(ctx, func() bool {
		// a restarted controller must find a reconcile pending (no lost wake-up across the crash)
		select {
		case <-r.EventCh():
			return true
		case <-time.After(time.Hour):
			return false
		case <-ctx.Done():
			return false
		}
	}, r.ResetRestartBackoff, r.StartTrackingOutputs)
}

type hookQ struct{ p *restartProbe }

func (h *hookQ) Name() string { return "hooked" }

func (h *hookQ) Settings() controller.QSettings {
	return controller.QSettings{
		Inputs: []controller.Input{{Namespace: "n1", Type: "T", Kind: controller.InputQPrimary}},
		RunHook: func(ctx context.Context, _ *zap.Logger, _ controller.QRuntime) error {
			return h.p.invoke(ctx, func() bool { return true }, nil, nil)
		},
	}
}

func (h *hookQ) Reconcile(context.Context, *zap.Logger, controller.QRuntime, resource.Pointer) error {
	return nil
}

func (h *hookQ) MapInput(context.Context, *zap.Logger, controller.QRuntime, controller.ReducedResourceMetadata) ([]resource.Pointer, error) {
	return nil, nil
}

type taskSpec struct{ p *restartProbe }

func (s taskSpec) ID() string { return "t1" }

func (s taskSpec) RunTask(ctx context.Context, _ *zap.Logger, _ int) error {
	return s.p.invoke(ctx, func() bool { return true }, nil, nil)
}

// runRestartCase returns the gaps between the end of each failing invocation and the next start, and token flags.
func runRestartCase(t *testing.T, c c16Case) (gaps []int64, tokens []bool, extra int) {
	synctest.Test(t, func(t *testing.T) {
		ctx, cancel := context.WithCancel(context.Background())
		defer cancel()

		p := &restartProbe{script: c.Script, t0: time.Now()}
		st := state.WrapCore(namespaced.NewState(inmem.Build))

		var wait func()

		switch c.Kind {
		case "controller", "hook":
			rt, err := cruntime.NewRuntime(st, zap.NewNop())
			if err != nil {
				t.Fatal(err)
			}

			if c.Kind == "controller" {
				err = rt.RegisterController(p)
			} else {
				err = rt.RegisterQController(&hookQ{p: p})
			}

			if err != nil {
				t.Fatal(err)
			}

			done := make(chan error, 1)

			go func() { done <- rt.Run(ctx) }()

			wait = func() { <-done }
		case "task":
			tk := task.New(zap.NewNop(), taskSpec{p: p}, 0)
			tk.Start(ctx)

			wait = tk.Stop
		}

		// every backoff is <= 90s+1ns; scripts are short
		time.Sleep(time.Duration(len(c.Script)+2)*3*time.Minute + time.Duration(sumDur(c.Script)))
		synctest.Wait()

		p.mu.Lock()
		for i := range p.script {
			if i < len(p.ends) && i+1 < len(p.starts) {
				gaps = append(gaps, int64(p.starts[i+1]-p.ends[i]))
			} else {
				gaps = append(gaps, -1)
			}
		}

		tokens = append(tokens, p.gotTok...)
		extra = len(p.starts) - len(p.script)
		p.mu.Unlock()

		cancel()
		wait()
		synctest.Wait()
	})

	return gaps, tokens, extra
}

func sumDur(s []rInv) int64 {
	var d int64
	for _, i := range s {
		d += i.Dur
	}

	return d
}

// ---- watch failure: the runtime must stop and return the error, and trigger nothing afterwards -------------

type failingWatchState struct {
	state.State
	fail    chan struct{}
	watches atomic.Int32
	mu      sync.Mutex
	ctxs    []context.Context // the context of every watch the runtime has set up
}

// liveWatches: how many of the runtime's watches have not been cancelled.
func (f *failingWatchState) liveWatches() int {
	f.mu.Lock()
	defer f.mu.Unlock()

	n := 0

	for _, c := range f.ctxs {
		if c.Err() == nil {
			n++
		}
	}

	return n
}

func (f *failingWatchState) WatchKindAggregated(ctx context.Context, kind resource.Kind, ch chan<- []state.Event, opts ...state.WatchKindOption) error {
	relay := make(chan []state.Event)

	if err := f.State.WatchKindAggregated(ctx, kind, relay, opts...); err != nil {
		return err
	}

	f.watches.Add(1)

	f.mu.Lock()
	f.ctxs = append(f.ctxs, ctx)
	f.mu.Unlock()

	go func() {
		for {
			select {
			case <-ctx.Done():
				return
			case evs := <-relay:
				select {
				case ch <- evs:
				case <-ctx.Done():
					return
				}
			case <-f.fail:
				select {
				case ch <- []state.Event{{Type: state.Errored, Error: errors.New("injected watch failure")}}:
				case <-ctx.Done():
				}

				return
			}
		}
	}()

	return nil
}

// slowStopper takes a (virtual) second to wind down after cancellation and then issues a last write: Run may only
// return once it has finished.
type slowStopper struct {
	done atomic.Bool
}

func (s *slowStopper) Name() string               { return "slowstop" }
func (s *slowStopper) Inputs() []controller.Input { return nil }
func (s *slowStopper) Outputs() []controller.Output {
	return []controller.Output{{Type: "L", Kind: controller.OutputExclusive}}
}

func (s *slowStopper) Run(ctx context.Context, r controller.Runtime, _ *zap.Logger) error {
	<-ctx.Done()
	time.Sleep(time.Second)

	r.Create(context.Background(), newRes("n1", "L", "last-gasp", "x")) //nolint:errcheck

	s.done.Store(true)

	return nil
}

func runWatchErrCase(t *testing.T, n int) (problems []string) {
	synctest.Test(t, func(t *testing.T) {
		ctx, cancel := context.WithCancel(context.Background())
		defer cancel()

		inner := state.WrapCore(namespaced.NewState(inmem.Build))
		fw := &failingWatchState{State: inner, fail: make(chan struct{})}
		book := &pBook{lastStart: map[string]map[string]int64{}, starts: map[string][]string{}}

		rt, err := cruntime.NewRuntime(fw, zap.NewNop())
		if err != nil {
			t.Fatal(err)
		}

		if err := rt.RegisterController(&pipeProbeR{name: "c0", ins: []controller.Input{{Namespace: "n1", Type: "T", Kind: controller.InputWeak}}, book: book}); err != nil {
			t.Fatal(err)
		}

		if err := rt.RegisterQController(&pipeProbeQ{name: "c1", ins: []controller.Input{{Namespace: "n1", Type: "T", Kind: controller.InputQPrimary}}, book: book}); err != nil {
			t.Fatal(err)
		}

		slow := &slowStopper{}
		if err := rt.RegisterController(slow); err != nil {
			t.Fatal(err)
		}

		var (
			runErr         error
			returned       atomic.Bool
			stoppedAtRet   bool
			lastGaspAtRet  bool
			lastGaspExists = func() bool {
				_, err := inner.Get(context.Background(), resource.NewMetadata("n1", "L", "last-gasp", resource.VersionUndefined))

				return err == nil
			}
		)

		done := make(chan struct{})

		go func() {
			runErr = rt.Run(ctx)
			stoppedAtRet = slow.done.Load()
			lastGaspAtRet = lastGaspExists()
			returned.Store(true)
			close(done)
		}()

		synctest.Wait()

		for i := range n {
			if err := inner.Create(ctx, newRes("n1", "T", fmt.Sprintf("r%d", i), "x")); err != nil {
				t.Fatal(err)
			}
		}

		synctest.Wait()
		close(fw.fail)
		synctest.Wait()
		time.Sleep(3 * time.Second) // the slow stopper needs one second after the cancellation
		synctest.Wait()

		if !returned.Load() {
			problems = append(problems, "watch-error-not-propagated: Run did not return after an Errored watch event")

			cancel()
			<-done

			return
		}

		if runErr == nil || !strings.Contains(runErr.Error(), "injected watch failure") {
			problems = append(problems, fmt.Sprintf("watch-error-not-propagated: Run returned %v instead of the watch error", runErr))
		}

		// ... with every watch it had set up cancelled, although the caller's context is still alive
		if n := fw.liveWatches(); n > 0 {
			problems = append(problems, fmt.Sprintf("watch-left-behind: %d watch(es) set up by the runtime are still active after Run returned the watch error (the caller's context is alive)", n))
		}

		// Run returns with every controller goroutine stopped and no write issued afterwards
		if !stoppedAtRet {
			problems = append(problems, "controller-running-after-return: Run returned the watch error while a controller was still winding down")
		}

		time.Sleep(5 * time.Second)
		synctest.Wait()

		if !lastGaspAtRet && lastGaspExists() {
			problems = append(problems, "write-after-return: a controller wrote a resource after Run had returned the watch error")
		}

		// nothing may run on stale notifications afterwards
		book.mu.Lock()
		book.starts = map[string][]string{}
		book.mu.Unlock()

		for i := range 3 {
			if err := inner.Create(ctx, newRes("n1", "T", fmt.Sprintf("late%d", i), "x")); err != nil {
				t.Fatal(err)
			}
		}

		time.Sleep(10 * time.Minute)
		synctest.Wait()

		book.mu.Lock()
		for name, jobs := range book.starts {
			if len(jobs) > 0 {
				problems = append(problems, fmt.Sprintf("runs-after-watch-error: controller %q reconciled %v after the runtime stopped", name, jobs))
			}
		}
		book.mu.Unlock()
	})

	return problems
}

// ---- cancellation at an arbitrary instant: Run returns, nothing is written afterwards -------------------------

type countingState struct {
	state.State
	calls     atomic.Int64
	cancelAt  int64
	cancel    context.CancelFunc
	returned  *atomic.Bool
	lateWrite atomic.Int64
}

func (c *countingState) tick(write bool) {
	n := c.calls.Add(1)
	if n == c.cancelAt {
		c.cancel()
	}

	if write && c.returned.Load() {
		c.lateWrite.Add(1)
	}
}

func (c *countingState) Create(ctx context.Context, r resource.Resource, opts ...state.CreateOption) error {
	c.tick(true)

	return c.State.Create(ctx, r, opts...)
}

func (c *countingState) Update(ctx context.Context, r resource.Resource, opts ...state.UpdateOption) error {
	c.tick(true)

	return c.State.Update(ctx, r, opts...)
}

func (c *countingState) Destroy(ctx context.Context, p resource.Pointer, opts ...state.DestroyOption) error {
	c.tick(true)

	return c.State.Destroy(ctx, p, opts...)
}

func (c *countingState) Get(ctx context.Context, p resource.Pointer, opts ...state.GetOption) (resource.Resource, error) { //nolint:ireturn
	c.tick(false)

	return c.State.Get(ctx, p, opts...)
}

type writerQ struct{}

func (writerQ) Name() string { return "writer" }

func (writerQ) Settings() controller.QSettings {
	return controller.QSettings{
		Inputs:      []controller.Input{{Namespace: "n1", Type: "T", Kind: controller.InputQPrimary}},
		Outputs:     []controller.Output{{Type: "O", Kind: controller.OutputExclusive}},
		Concurrency: optionalUint(2),
	}
}

func (writerQ) Reconcile(ctx context.Context, _ *zap.Logger, r controller.QRuntime, ptr resource.Pointer) error {
	if _, err := r.Get(ctx, ptr); err != nil {
		return nil //nolint:nilerr
	}

	for i := range 3 {
		if err := r.Modify(ctx, newRes("n1", "O", ptr.ID(), ""), func(o resource.Resource) error {
			o.(*Res).SetPayload(fmt.Sprintf("w%d", i)) //nolint:forcetypeassert

			return nil
		}); err != nil {
			return err
		}

		select {
		case <-ctx.Done():
			return ctx.Err()
		case <-time.After(time.Millisecond):
		}
	}

	return nil
}

func (writerQ) MapInput(context.Context, *zap.Logger, controller.QRuntime, controller.ReducedResourceMetadata) ([]resource.Pointer, error) {
	return nil, nil
}

func runCancelCase(t *testing.T, at int) (problems []string) {
	synctest.Test(t, func(t *testing.T) {
		ctx, cancel := context.WithCancel(context.Background())
		defer cancel()

		var returned atomic.Bool

		inner := state.WrapCore(namespaced.NewState(inmem.Build))
		cs := &countingState{State: inner, cancelAt: int64(at), cancel: cancel, returned: &returned}

		rt, err := cruntime.NewRuntime(cs, zap.NewNop())
		if err != nil {
			t.Fatal(err)
		}

		if err := rt.RegisterQController(writerQ{}); err != nil {
			t.Fatal(err)
		}

		// somebody else has been watching the runtime's input kind for longer and goes on watching: the runtime's own
		// watch must still end with the runtime
		obsCtx, obsCancel := context.WithCancel(context.Background())
		defer obsCancel()

		obsCh := make(chan state.Event, 64)
		if err := inner.WatchKind(obsCtx, resource.NewMetadata("n1", "T", "", resource.VersionUndefined), obsCh); err != nil {
			t.Fatal(err)
		}

		synctest.Wait()

		watchGoroutines := func() int {
			buf := make([]byte, 1<<20)
			buf = buf[:runtime.Stack(buf, true)]

			n := 0

			for _, g := range strings.Split(string(buf), "\n\n") {
				if strings.Contains(g, "inmem.(*ResourceCollection).WatchAll.func") && strings.Contains(g, "sync.(*Cond).Wait") {
					n++
				}
			}

			return n
		}

		watchersBefore := watchGoroutines()

		var runErr error

		done := make(chan struct{})

		go func() {
			runErr = rt.Run(ctx)
			returned.Store(true)
			close(done)
		}()

		for i := range 4 {
			inner.Create(context.Background(), newRes("n1", "T", fmt.Sprintf("i%d", i), "x")) //nolint:errcheck
		}

		time.Sleep(time.Minute)
		synctest.Wait()

		if cs.calls.Load() < int64(at) {
			cancel() // the workload finished before reaching the cancellation point
		}

		<-done
		synctest.Wait()
		time.Sleep(time.Minute)
		synctest.Wait()

		if runErr != nil {
			problems = append(problems, fmt.Sprintf("cancel-error: Run returned %v on cancellation", runErr))
		}

		if n := cs.lateWrite.Load(); n > 0 {
			problems = append(problems, fmt.Sprintf("write-after-return: %d write(s) were issued after Run had returned (cancelled at store call %d)", n, at))
		}

		// drain the observer's channel so that its own goroutine is parked waiting for changes, then count
		for len(obsCh) > 0 {
			<-obsCh
		}

		synctest.Wait()

		defer func() {
			// leave the bubble tidy whatever happened: end the observer, then commit one change so that every watcher still
			// parked on the collection wakes up and notices that its context is gone
			obsCancel()
			inner.Create(context.Background(), newRes("n1", "T", "wakeup", "x")) //nolint:errcheck
			synctest.Wait()
		}()

		if n := watchGoroutines(); n > watchersBefore {
			problems = append(problems, fmt.Sprintf("watch-left-behind: %d watch goroutine(s) of the stopped runtime are still waiting on the collection after Run returned (another, older watcher exists on the same kind)", n-watchersBefore))
		}
		// goroutine leaks: synctest.Test fails the test if bubble goroutines are still blocked when the function returns
	})

	return problems
}

func TestC16(t *testing.T) {
	dir := outDir(t)
	rep := newReport("C16", "real Runtime / task under synctest: (a) scripted run outcomes (error, panic, nil; ResetRestartBackoff; run durations around one minute) for a Controller, a run hook and a task - virtual restart times vs the model's backoff windows, and a pending reconcile after every restart; "+
		"(b) an Errored watch event injected after n events: Run must return that error and no controller may reconcile afterwards; (c) cancellation at every k-th store call: Run returns nil, no write after it returned, no goroutine left in the bubble; "+
		"(d) C05 quiescence monitor with one probe that always fails; non-trivial = a restart, reset or stop occurred; distinct by case")
	rep.CorrIsSpec = true // the restart/backoff machine is the property's statement: a disagreeing script is a failing input

	var cases []c16Case

	if rp := os.Getenv("VERIF_REPLAY"); rp != "" {
		b, err := os.ReadFile(rp)
		if err != nil {
			t.Fatal(err)
		}

		var rf struct {
			Case c16Case `json:"case"`
		}

		if err := json.Unmarshal(b, &rf); err != nil {
			t.Fatal(err)
		}

		cases = append(cases, rf.Case)
	} else {
		r := newRng(seed(), "C16")
		outs := []string{"err", "err", "panic"}

		// every pattern of length <= 4 over {err, panic, err+reset}, then a clean return
		var rec func(prefix []rInv, depth int)

		rec = func(prefix []rInv, depth int) {
			if depth == 0 {
				tracked := false
				for _, i := range prefix {
					tracked = tracked || i.Track
				}

				for _, kind := range []string{"controller", "hook", "task"} {
					if tracked && kind != "controller" {
						continue
					}

					s := append(append([]rInv(nil), prefix...), rInv{Out: "nil"})
					cases = append(cases, c16Case{Kind: kind, Script: s})
				}

				return
			}

			for _, o := range []rInv{{Out: "err"}, {Out: "panic"}, {Out: "err", Reset: true}, {Out: "err", Dur: 61e9}, {Out: "panic", Track: true}, {Out: "err", Track: true}} {
				rec(append(prefix, o), depth-1)
			}
		}

		for l := 1; l <= tier(3, 4); l++ {
			rec(nil, l)
		}

		// late faults: a first failure long after the start (or after the last one) must still be followed by a
		// backoff inside the window - the schedule has no deadline after which it stops delaying
		for _, kind := range []string{"controller", "hook", "task"} {
			cases = append(cases,
				c16Case{Kind: kind, Script: []rInv{{Out: "err", Dur: 20 * 60e9}, {Out: "err"}, {Out: "panic"}, {Out: "nil"}}},
				c16Case{Kind: kind, Script: []rInv{{Out: "err"}, {Out: "err", Dur: 16 * 60e9}, {Out: "err"}, {Out: "nil"}}},
				c16Case{Kind: kind, Script: []rInv{{Out: "err", Reset: true, Dur: 45 * 60e9}, {Out: "err"}, {Out: "nil"}}},
			)
		}

		for range tier(40, 1500) {
			var s []rInv
			for range 4 + r.intn(10) {
				s = append(s, rInv{Out: pick(r, outs), Reset: r.chance(1, 5), Dur: pick(r, []int64{0, 0, 1e9, 59e9, 61e9, 120e9}), Track: r.chance(1, 4)})
			}

			cases = append(cases, c16Case{Kind: pick(r, []string{"controller", "hook", "task"}), Script: s})
		}

		for n := range tier(6, 40) {
			cases = append(cases, c16Case{Kind: "watcherr", N: n})
		}

		for at := 1; at <= tier(40, 120); at++ {
			cases = append(cases, c16Case{Kind: "cancel", N: at})
		}

		for range tier(40, 1000) {
			sc := pScenario{Probes: genPipeProbes(r), Cached: r.chance(1, 3), Steps: genPipeWrites(r, 8+r.intn(20))}
			sc.Probes = append(sc.Probes, pProbe{Name: "failing", Flavour: pick(r, []string{"r", "q"}), Ins: []inSpec{{NS: "n1", Typ: "T", Kind: 3}}, Fail: true})

			if sc.Probes[len(sc.Probes)-1].Flavour == "r" {
				sc.Probes[len(sc.Probes)-1].Ins = []inSpec{{NS: "n1", Typ: "T", Kind: 0}}
			}

			cases = append(cases, c16Case{Kind: "isolation", Sc: &sc})
		}
	}

	rf := newCoqFile("C16_restart_cases", []string{"Queue", "Restart", "RestartCheck"}, "rcase", "restart_mismatches")

	var jl []any

	for i, c := range cases {
		key, _ := json.Marshal(c)

		switch c.Kind {
		case "controller", "hook", "task":
			gaps, tokens, extra := runRestartCase(t, c)

			invs := make([]string, len(c.Script))
			for j, inv := range c.Script {
				invs[j] = inv.coq()
			}

			gs := make([]string, len(gaps))
			for j, g := range gaps {
				gs[j] = coqZ(g)
			}

			kind := map[string]string{"controller": "KController", "hook": "KRunHook", "task": "KTask"}[c.Kind]
			rf.add(fmt.Sprintf("(%s, %s, %s)", kind, coqList(invs), coqList(gs)))
			jl = append(jl, map[string]any{"case": c})

			rep.count(string(key), len(c.Script) > 1)
			rep.hit("restart:" + c.Kind)

			if i%37 == 3 {
				rep.sample(map[string]any{"case": c, "gaps_ns": gaps})
			}

			if c.Kind == "controller" {
				for j, tok := range tokens {
					if !tok {
						rep.violateKey(i, "restart-without-trigger", fmt.Sprintf("restarted controller found no pending reconcile at invocation %d", j), map[string]any{"case": c})
					}
				}
			}

			if extra > 1 {
				rep.violateKey(i, "restart-after-clean-return", fmt.Sprintf("%d invocations after the script's clean return", extra), map[string]any{"case": c})
			}
		case "watcherr":
			rep.count(string(key), true)
			rep.hit("watcherr")

			for _, p := range runWatchErrCase(t, c.N) {
				rep.violateKey(i, strings.SplitN(p, ":", 2)[0], p, map[string]any{"case": c})
			}
		case "cancel":
			rep.count(string(key), true)
			rep.hit("cancel")

			for _, p := range runCancelCase(t, c.N) {
				rep.violateKey(i, strings.SplitN(p, ":", 2)[0], p, map[string]any{"case": c})
			}
		case "isolation":
			rep.count(string(key), true)
			rep.hit("isolation")

			res := runPipeScenario(t, *c.Sc, false)
			for _, p := range res.problems {
				if strings.Contains(p, `"failing"`) {
					continue // the failing controller itself is retried for ever; only the others must converge
				}

				rep.violateKey(i, "isolation-"+strings.SplitN(p, ":", 2)[0], p, map[string]any{"case": c})
			}
		}
	}

	rf.finishSharded(t, dir, rep, jl, 400)
	rep.Assumptions = append(rep.Assumptions, "recover() semantics and goroutine scheduling of the Go runtime; leak freedom is observed (synctest bubble must drain), not proved")
	rep.write(t, dir)
}
