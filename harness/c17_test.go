package harness

import (
	"context"
	"encoding/json"
	"fmt"
	"os"
	"slices"
	"sort"
	"strings"
	"sync"
	"testing"
	"testing/synctest"

	"github.com/siderolabs/gen/optional"
	"go.uber.org/zap"

	"github.com/cosi-project/runtime/pkg/controller"
	cruntime "github.com/cosi-project/runtime/pkg/controller/runtime"
	"github.com/cosi-project/runtime/pkg/resource"
	"github.com/cosi-project/runtime/pkg/state"
	"github.com/cosi-project/runtime/pkg/state/impl/inmem"
	"github.com/cosi-project/runtime/pkg/state/impl/namespaced"
)

// ---- replayable descriptions -------------------------------------------------------------------

type inSpec struct {
	NS   string  `json:"ns"`
	Typ  string  `json:"typ"`
	ID   *string `json:"id,omitempty"` // nil = by kind
	Kind int     `json:"kind"`
}

func (i inSpec) input() controller.Input {
	in := controller.Input{Namespace: i.NS, Type: i.Typ, Kind: i.Kind}
	if i.ID != nil {
		in.ID = optional.Some(*i.ID)
	}

	return in
}

func (i inSpec) coq() string {
	id := "None"
	if i.ID != nil {
		id = "(Some " + coqAtom(*i.ID) + ")"
	}

	return fmt.Sprintf("(mkIn %s %s %s %s)", coqAtom(i.NS), coqAtom(i.Typ), id, coqN(uint64(i.Kind)))
}

func coqInput(in controller.Input) string {
	id := "None"
	if v, ok := in.ID.Get(); ok {
		id = "(Some " + coqAtom(v) + ")"
	}

	return fmt.Sprintf("(mkIn %s %s %s %s)", coqAtom(in.Namespace), coqAtom(in.Type), id, coqN(uint64(in.Kind)))
}

type outSpec struct {
	Typ  string `json:"typ"`
	Kind int    `json:"kind"`
}

func (o outSpec) coq() string {
	return fmt.Sprintf("(mkOut %s %s)", coqAtom(o.Typ), coqN(uint64(o.Kind)))
}

type dbOp struct {
	Op   string   `json:"op"` // addout | addin | delin | query
	Name string   `json:"name,omitempty"`
	In   *inSpec  `json:"in,omitempty"`
	Out  *outSpec `json:"out,omitempty"`
}

type regOp struct {
	Op   string    `json:"op"` // regr | regq | updin | start
	Name string    `json:"name,omitempty"`
	Outs []outSpec `json:"outs,omitempty"`
	Ins  []inSpec  `json:"ins,omitempty"`
	Conc int       `json:"conc,omitempty"`
}

type c17Case struct {
	Kind string  `json:"kind"` // db | rt
	DB   []dbOp  `json:"db,omitempty"`
	RT   []regOp `json:"rt,omitempty"`
}

var (
	c17Names = []string{"c1", "c2", "c3"}
	c17NS    = []string{"n1", "n2"}
	c17Types = []string{"T", "U"}
)

func sp(s string) *string { return &s }

func c17IDs() []*string { return []*string{nil, sp("a"), sp("b")} }

func coqEdges(g *controller.DependencyGraph) string {
	type e5 [5]uint64

	es := make([]e5, 0, len(g.Edges))
	for _, e := range g.Edges {
		es = append(es, e5{atom(e.ControllerName), uint64(e.EdgeType), atom(e.ResourceNamespace), atom(e.ResourceType), atom(e.ResourceID)})
	}

	sort.Slice(es, func(i, j int) bool {
		for k := range 5 {
			if es[i][k] != es[j][k] {
				return es[i][k] < es[j][k]
			}
		}

		return false
	})

	items := make([]string, len(es))
	for i, e := range es {
		items[i] = fmt.Sprintf("(%s, %s, %s, %s, %s)", coqN(e[0]), coqN(e[1]), coqN(e[2]), coqN(e[3]), coqN(e[4]))
	}

	return coqList(items)
}

func coqAtoms(xs []string) string {
	out := make([]string, len(xs))
	for i, x := range xs {
		out[i] = coqAtom(x)
	}

	return coqList(out)
}

// ---- white-box database differential -------------------------------------------------------------

func runDBCase(t *testing.T, ops []dbOp) (coq string, flags map[string]bool, problems []string) {
	flags = map[string]bool{}

	db, err := cruntime.VerifNewDepDB()
	if err != nil {
		t.Fatal(err)
	}

	var items []string

	// a lookup result belongs to the caller: the runtime walks it after the database lock is released, so later
	// registrations must not change it (held = the slice as returned, want = its contents at that time)
	type heldLookup struct {
		what string
		held []string
		want []string
	}

	var held []heldLookup

	checkHeld := func(after string) {
		for _, h := range held {
			if !slices.Equal(h.held, h.want) {
				problems = append(problems, fmt.Sprintf("lookup-aliased: the result of GetDependentControllers(%s) was %v when returned and reads %v after %s: it shares memory with the lookup table", h.what, h.want, h.held, after))
			}
		}
	}

	query := func() {
		for _, ns := range c17NS {
			for _, typ := range c17Types {
				for _, id := range []string{"a", "b", "c"} {
					deps, err := db.GetDependentControllers(controller.Input{Namespace: ns, Type: typ, ID: optional.Some(id)})
					if err != nil {
						t.Fatal(err)
					}

					if len(held) < 200 {
						// also what an append by the caller would clobber: look at the full capacity
						held = append(held, heldLookup{what: ns + "/" + typ + "/" + id, held: deps[:cap(deps)], want: slices.Clone(deps[:cap(deps)])})
					}

					items = append(items, fmt.Sprintf("(DDependents %s %s %s %s)", coqAtom(ns), coqAtom(typ), coqAtom(id), coqAtoms(deps)))
				}
			}
		}

		for _, n := range c17Names {
			ins, err := db.GetControllerInputs(n)
			if err != nil {
				t.Fatal(err)
			}

			rendered := make([]string, len(ins))
			for i, in := range ins {
				rendered[i] = coqInput(in)
			}

			items = append(items, fmt.Sprintf("(DInputs %s %s)", coqAtom(n), coqList(rendered)))
		}

		g, err := db.Export()
		if err != nil {
			t.Fatal(err)
		}

		items = append(items, "(DExport "+coqEdges(g)+")")
	}

	for _, o := range ops {
		switch o.Op {
		case "addout":
			err := db.AddControllerOutput(o.Name, controller.Output{Type: o.Out.Typ, Kind: o.Out.Kind})
			items = append(items, fmt.Sprintf("(DAddOut %s %s %s)", coqAtom(o.Name), o.Out.coq(), coqBool(err == nil)))

			if err != nil {
				flags["output_rejected"] = true
			}
		case "addin":
			err := db.AddControllerInput(o.Name, o.In.input())
			items = append(items, fmt.Sprintf("(DAddIn %s %s %s)", coqAtom(o.Name), o.In.coq(), coqBool(err == nil)))

			if err != nil {
				flags["input_rejected"] = true
			}
		case "delin":
			err := db.DeleteControllerInput(o.Name, o.In.input())
			items = append(items, fmt.Sprintf("(DDelIn %s %s %s)", coqAtom(o.Name), o.In.coq(), coqBool(err == nil)))

			if err == nil {
				flags["input_deleted"] = true
			}
		case "query":
			query()
		}

		if o.Op != "query" {
			checkHeld(o.Op + " " + o.Name)
		}
	}

	query()

	return coqList(items), flags, problems
}

// ---- registration histories through the public API ------------------------------------------------

type probeR struct {
	name string
	outs []controller.Output
	ins  []controller.Input

	mu     sync.Mutex
	rt     controller.Runtime
	events int
}

func (p *probeR) Name() string                 { return p.name }
func (p *probeR) Inputs() []controller.Input   { return append([]controller.Input(nil), p.ins...) }
func (p *probeR) Outputs() []controller.Output { return p.outs }

func (p *probeR) Run(ctx context.Context, r controller.Runtime, _ *zap.Logger) error {
	p.mu.Lock()
	p.rt = r
	p.mu.Unlock()

	for {
		select {
		case <-ctx.Done():
			return nil
		case <-r.EventCh():
			p.mu.Lock()
			p.events++
			p.mu.Unlock()
		}
	}
}

type probeQC struct {
	name string
	set  controller.QSettings

	mu    sync.Mutex
	calls int
}

func (p *probeQC) Name() string                   { return p.name }
func (p *probeQC) Settings() controller.QSettings { return p.set }

func (p *probeQC) Reconcile(context.Context, *zap.Logger, controller.QRuntime, resource.Pointer) error {
	p.mu.Lock()
	p.calls++
	p.mu.Unlock()

	return nil
}

func (p *probeQC) MapInput(context.Context, *zap.Logger, controller.QRuntime, controller.ReducedResourceMetadata) ([]resource.Pointer, error) {
	p.mu.Lock()
	p.calls++
	p.mu.Unlock()

	return nil, nil
}

func runRTCase(t *testing.T, ops []regOp) (coq string, problems []string, flags map[string]bool) {
	flags = map[string]bool{}

	synctest.Test(t, func(t *testing.T) {
		ctx, cancel := context.WithCancel(context.Background())
		defer cancel()

		st := state.WrapCore(namespaced.NewState(inmem.Build))

		rt, err := cruntime.NewRuntime(st, zap.NewNop())
		if err != nil {
			t.Fatal(err)
		}

		var (
			items    []string
			probesR  = map[string]*probeR{}
			probesQ  = map[string]*probeQC{}
			started  bool
			done     = make(chan error, 1)
			accepted = map[string]bool{}
		)

		graph := func() {
			g, err := rt.GetDependencyGraph()
			if err != nil {
				t.Fatal(err)
			}

			items = append(items, "(RGraph "+coqEdges(g)+")")

			// Go-side monitor: every edge belongs to an accepted controller
			for _, e := range g.Edges {
				if !accepted[e.ControllerName] {
					problems = append(problems, fmt.Sprintf("rejected-registration-effect: dependency graph lists an edge of controller %q whose registration was rejected", e.ControllerName))
				}
			}
		}

		mkOuts := func(os []outSpec) ([]controller.Output, string) {
			outs := make([]controller.Output, len(os))
			rendered := make([]string, len(os))

			for i, o := range os {
				outs[i] = controller.Output{Type: o.Typ, Kind: o.Kind}
				rendered[i] = o.coq()
			}

			return outs, coqList(rendered)
		}

		mkIns := func(is []inSpec) ([]controller.Input, string) {
			ins := make([]controller.Input, len(is))
			rendered := make([]string, len(is))

			for i, in := range is {
				ins[i] = in.input()
				rendered[i] = in.coq()
			}

			return ins, coqList(rendered)
		}

		for _, o := range ops {
			switch o.Op {
			case "start":
				if !started {
					started = true

					go func() { done <- rt.Run(ctx) }()

					synctest.Wait()
				}
			case "regr":
				outs, couts := mkOuts(o.Outs)
				ins, cins := mkIns(o.Ins)
				p := &probeR{name: o.Name, outs: outs, ins: ins}
				err := rt.RegisterController(p)

				if err == nil {
					probesR[o.Name] = p
					accepted[o.Name] = true
				} else {
					flags["registration_rejected"] = true
				}

				synctest.Wait()
				items = append(items, fmt.Sprintf("(ROp (RegR %s %s %s) %s)", coqAtom(o.Name), couts, cins, coqBool(err == nil)))
			case "regq":
				outs, couts := mkOuts(o.Outs)
				ins, cins := mkIns(o.Ins)
				set := controller.QSettings{Inputs: ins, Outputs: outs}

				if o.Conc >= 0 {
					set.Concurrency = optional.Some(uint(o.Conc))
				}

				conc := o.Conc
				if conc < 0 {
					conc = 1
				}

				p := &probeQC{name: o.Name, set: set}
				err := rt.RegisterQController(p)

				if err == nil {
					probesQ[o.Name] = p
					accepted[o.Name] = true
				} else {
					flags["registration_rejected"] = true
				}

				synctest.Wait()
				items = append(items, fmt.Sprintf("(ROp (RegQ %s %s %s %s) %s)", coqAtom(o.Name), coqN(uint64(conc)), couts, cins, coqBool(err == nil)))
			case "updin":
				p, ok := probesR[o.Name]
				if !ok || !started {
					continue
				}

				p.mu.Lock()
				r := p.rt
				p.mu.Unlock()

				if r == nil {
					continue
				}

				ins, cins := mkIns(o.Ins)
				err := r.UpdateInputs(ins)

				if err != nil {
					flags["update_rejected"] = true
				} else {
					flags["update_accepted"] = true
				}

				synctest.Wait()
				items = append(items, fmt.Sprintf("(ROp (UpdIn %s %s) %s)", coqAtom(o.Name), cins, coqBool(err == nil)))
			}

			graph()
		}

		// notifications: which controllers wake for a change of each resource
		if !started {
			go func() { done <- rt.Run(ctx) }()
		}

		synctest.Wait()

		for _, ns := range c17NS {
			for _, typ := range c17Types {
				for _, id := range []string{"a", "b"} {
					for _, p := range probesR {
						p.mu.Lock()
						p.events = 0
						p.mu.Unlock()
					}

					for _, p := range probesQ {
						p.mu.Lock()
						p.calls = 0
						p.mu.Unlock()
					}

					if err := st.Create(ctx, newRes(ns, typ, id, "x")); err != nil {
						t.Fatal(err)
					}

					synctest.Wait()

					var woken []string

					for n, p := range probesR {
						p.mu.Lock()
						if p.events > 0 {
							woken = append(woken, n)
						}
						p.mu.Unlock()
					}

					for n, p := range probesQ {
						p.mu.Lock()
						if p.calls > 0 {
							woken = append(woken, n)
						}
						p.mu.Unlock()
					}

					sort.Slice(woken, func(i, j int) bool { return atom(woken[i]) < atom(woken[j]) })
					items = append(items, fmt.Sprintf("(RWake %s %s %s %s)", coqAtom(ns), coqAtom(typ), coqAtom(id), coqAtoms(woken)))
				}
			}
		}

		coq = coqList(items)

		cancel()
		<-done
		synctest.Wait()
	})

	return coq, problems, flags
}

// ---- generators ---------------------------------------------------------------------------------------

func genInSpec(r *rng, qkinds bool) inSpec {
	in := inSpec{NS: pick(r, c17NS), Typ: pick(r, c17Types), ID: pick(r, c17IDs())}

	if qkinds {
		in.Kind = 3 + r.intn(2) // q-primary / q-mapped (destroy-ready kinds filter notifications: C05)
	} else {
		in.Kind = r.intn(2) // weak / strong
	}

	return in
}

func genC17(r *rng) []c17Case {
	var cases []c17Case

	// database op strings
	for range tier(400, 10000) {
		var (
			ops   []dbOp
			added = map[string][]inSpec{}
		)

		for range 4 + r.intn(16) {
			name := pick(r, c17Names)

			switch x := r.intn(10); {
			case x < 2:
				ops = append(ops, dbOp{Op: "addout", Name: name, Out: &outSpec{Typ: pick(r, c17Types), Kind: r.intn(2)}})
			case x < 7:
				in := genInSpec(r, r.chance(1, 2))
				in.Kind = r.intn(6)
				added[name] = append(added[name], in)
				ops = append(ops, dbOp{Op: "addin", Name: name, In: &in})
			case x < 9:
				in := genInSpec(r, false)
				in.Kind = r.intn(6)

				if len(added[name]) > 0 && r.chance(3, 4) {
					in = pick(r, added[name])
					if r.chance(1, 3) {
						in.Kind = r.intn(6) // same keys, other kind: still matches
					}
				}

				ops = append(ops, dbOp{Op: "delin", Name: name, In: &in})
			default:
				ops = append(ops, dbOp{Op: "query"})
			}
		}

		cases = append(cases, c17Case{Kind: "db", DB: ops})
	}

	// registration histories
	for range tier(200, 5000) {
		var (
			ops  []regOp
			regd []string
		)

		if r.chance(2, 3) {
			ops = append(ops, regOp{Op: "start"})
		}

		for range 2 + r.intn(6) {
			name := pick(r, c17Names)

			mkOuts := func() []outSpec {
				var outs []outSpec
				for range r.intn(3) {
					outs = append(outs, outSpec{Typ: pick(r, []string{"O", "P"}), Kind: r.intn(2)})
				}

				return outs
			}

			switch x := r.intn(10); {
			case x < 4:
				var ins []inSpec
				for range r.intn(4) {
					in := genInSpec(r, false)
					if r.chance(1, 10) {
						in.Kind = 3 // invalid for a Controller
					}

					ins = append(ins, in)
				}

				regd = append(regd, name)
				ops = append(ops, regOp{Op: "regr", Name: name, Outs: mkOuts(), Ins: ins})
			case x < 7:
				var ins []inSpec
				for range 1 + r.intn(3) {
					in := genInSpec(r, true)
					if r.chance(1, 8) {
						in.Kind = r.intn(2) // invalid for a QController
					}

					ins = append(ins, in)
				}

				conc := -1
				if r.chance(1, 8) {
					conc = 0
				}

				ops = append(ops, regOp{Op: "regq", Name: name, Outs: mkOuts(), Ins: ins, Conc: conc})
			case x < 9:
				var ins []inSpec
				for range r.intn(4) {
					in := genInSpec(r, false)
					if r.chance(1, 12) {
						in.Kind = 4 // invalid for a Controller
					}

					ins = append(ins, in)
				}

				if len(regd) > 0 {
					name = pick(r, regd)
				}

				ops = append(ops, regOp{Op: "updin", Name: name, Ins: ins})
			default:
				ops = append(ops, regOp{Op: "start"})
			}
		}

		cases = append(cases, c17Case{Kind: "rt", RT: ops})
	}

	return cases
}

func TestC17(t *testing.T) {
	dir := outDir(t)
	rep := newReport("C17", "white-box: random operation strings on the real dependency.Database (3 controllers x 2 namespaces x 2 types x ids {none,a,b} x 6 input kinds, exclusive/shared outputs), every getter and Export compared after the string and at query points; "+
		"black-box: RegisterController/RegisterQController/UpdateInputs histories with valid and invalid declarations before and after Run, comparing acceptance, GetDependencyGraph() after every step and which probes wake for a change of each resource; "+
		"non-trivial = a rejection, deletion or dynamic update occurred; distinct by op list")

	var cases []c17Case

	if rp := os.Getenv("VERIF_REPLAY"); rp != "" {
		b, err := os.ReadFile(rp)
		if err != nil {
			t.Fatal(err)
		}

		var rf struct {
			Case c17Case `json:"case"`
		}

		if err := json.Unmarshal(b, &rf); err != nil {
			t.Fatal(err)
		}

		cases = append(cases, rf.Case)
	} else {
		// corpus: a QController rejected half-way (finding F3)
		cases = append(cases, c17Case{Kind: "rt", RT: []regOp{
			{Op: "regq", Name: "c1", Conc: -1, Ins: []inSpec{{NS: "n1", Typ: "T", Kind: 3}, {NS: "n1", Typ: "U", Kind: 0}}},
			{Op: "regr", Name: "c2", Outs: []outSpec{{Typ: "O", Kind: 0}, {Typ: "P", Kind: 0}}, Ins: []inSpec{{NS: "n1", Typ: "T", Kind: 3}}},
			{Op: "regr", Name: "c3", Outs: []outSpec{{Typ: "O", Kind: 0}}},
		}})
		cases = append(cases, genC17(newRng(seed(), "C17"))...)
	}

	dbf := newCoqFile("C17_db_cases", []string{"DepDB", "DepDBCheck"}, "list dbobs", "db_mismatches")
	rtf := newCoqFile("C17_rt_cases", []string{"DepDB", "DepDBCheck"}, "list rtobs", "rt_mismatches")

	var dbJL, rtJL []any

	for i, c := range cases {
		key, _ := json.Marshal(c)

		switch c.Kind {
		case "db":
			coq, flags, problems := runDBCase(t, c.DB)

			for _, p := range problems {
				rep.violateKey(i, strings.SplitN(p, ":", 2)[0], p, map[string]any{"case": c})
			}
			dbf.add(coq)
			dbJL = append(dbJL, map[string]any{"case": c})
			rep.count(string(key), len(flags) > 0)

			for f := range flags {
				rep.hit("db:" + f)
			}
		case "rt":
			coq, problems, flags := runRTCase(t, c.RT)
			rtf.add(coq)
			rtJL = append(rtJL, map[string]any{"case": c})
			rep.count(string(key), len(flags) > 0)

			for f := range flags {
				rep.hit("rt:" + f)
			}

			if len(flags) >= 2 {
				rep.sample(map[string]any{"case": c, "observed_prefix": coq[:min(len(coq), 600)]})
			}

			for _, p := range problems {
				rep.violateKey(i, "rejected-registration-effect", p, map[string]any{"case": c})
			}
		}
	}

	dbf.finishSharded(t, dir, rep, dbJL, 150)
	rtf.finishSharded(t, dir, rep, rtJL, 150)
	rep.Assumptions = append(rep.Assumptions, "slices.BinarySearchFunc returns the smallest index whose element is not less than the target on a sorted slice (standard library)")
	rep.write(t, dir)
}
