package harness

import (
	"bytes"
	"crypto/rand"
	"encoding/json"
	"fmt"
	"os"
	"strings"
	"testing"
	"time"

	"go.yaml.in/yaml/v4"

	"github.com/cosi-project/runtime/api/v1alpha1"
	"github.com/cosi-project/runtime/pkg/resource"
	"github.com/cosi-project/runtime/pkg/resource/protobuf"
	"github.com/cosi-project/runtime/pkg/state/impl/store"
	"github.com/cosi-project/runtime/pkg/state/impl/store/compression"
	"github.com/cosi-project/runtime/pkg/state/impl/store/encryption"
)

// ---- toy compressor (the model evaluates it): reversal, ID 't' ------------------------------------------

type toyCompressor struct{}

func (toyCompressor) Compress(prefix, data []byte) ([]byte, error) {
	out := append([]byte(nil), prefix...)
	for i := len(data) - 1; i >= 0; i-- {
		out = append(out, data[i])
	}

	return out, nil
}

func (toyCompressor) Decompress(data []byte) ([]byte, error) {
	out := make([]byte, 0, len(data))
	for i := len(data) - 1; i >= 0; i-- {
		out = append(out, data[i])
	}

	return out, nil
}

func (toyCompressor) ID() byte { return 't' }

// fakeInner is an innermost marshaler that emits the resource's payload verbatim and records what it is asked to decode.
type fakeInner struct{ got *[]byte }

func (fakeInner) MarshalResource(r resource.Resource) ([]byte, error) {
	return []byte(payloadOf(r)), nil
}

func (f fakeInner) UnmarshalResource(b []byte) (resource.Resource, error) { //nolint:ireturn
	*f.got = append([]byte{}, b...)

	return newRes("n", "T", "x", string(b)), nil
}

type c18Meta struct {
	NS, Typ, ID, Owner string
	Ver                *uint64
	Tearing            bool
	Fins               []string
	Labels, Annot      map[string]string
	CreatedNS, UpdNS   int64
	Payload            string
	// timestamps never set (a resource built from a manifest without them): the zero time must survive, too
	ZeroCreated, ZeroUpdated bool
}

func (m c18Meta) build() *Res {
	r := newRes(m.NS, m.Typ, m.ID, m.Payload)
	md := r.Metadata()

	if m.Ver != nil {
		v, _ := resource.ParseVersion("1") //nolint:errcheck
		// reach an arbitrary version through the public API: parse its text form when possible
		if pv, err := resource.ParseVersion(fmt.Sprint(*m.Ver)); err == nil {
			v = pv
		}

		md.SetVersion(v)
	}

	md.SetOwner(m.Owner) //nolint:errcheck

	if m.Tearing {
		md.SetPhase(resource.PhaseTearingDown)
	}

	for _, f := range m.Fins {
		md.Finalizers().Add(f)
	}

	for k, v := range m.Labels {
		md.Labels().Set(k, v)
	}

	for k, v := range m.Annot {
		md.Annotations().Set(k, v)
	}

	md.SetCreated(time.Unix(0, m.CreatedNS).UTC())
	md.SetUpdated(time.Unix(0, m.UpdNS).UTC())

	if m.ZeroCreated {
		md.SetCreated(time.Time{})
	}

	if m.ZeroUpdated {
		md.SetUpdated(time.Time{})
	}

	return r
}

var c18Strings = []string{"", "a", "default", "with space", "üñí-çødé", "日本語", "a\nb", "\"quoted\"", ": colon", "- dash", "#hash", "null", "true", "123", "0x10", "~", "a\tb", strings.Repeat("long", 80), "emoji-😀", "{}", "[x]", "'", "\\"}

func genC18Meta(r *rng) c18Meta {
	s := func() string { return pick(r, c18Strings) }
	id := func() string { return pick(r, []string{"a", "id-1", "üñí", "x y", "9", strings.Repeat("i", 70)}) }

	m := c18Meta{NS: pick(r, []string{"n1", "default", "ns-ü"}), Typ: pick(r, harnessTypes), ID: id(), Owner: pick(r, []string{"", "ctrl", "c ü"}), Tearing: r.chance(1, 3), Payload: s()}

	if r.chance(1, 25) {
		// a large spec: far beyond every compression threshold and window
		big := make([]byte, pick(r, []int{70 << 10, 200 << 10, 600 << 10, 600 << 10, 5 << 20, 9 << 20}))
		for i := range big {
			big[i] = byte('a' + (i*7+i/253)%23)
		}

		m.Payload = string(big)
	}

	switch r.intn(6) {
	case 0:
	case 1:
		m.Ver = new(uint64(1))
	case 2:
		m.Ver = new(uint64(1<<63 - 1))
	case 3:
		m.Ver = new(uint64(1 << 63))
	case 4:
		m.Ver = new(^uint64(0))
	default:
		m.Ver = new(r.next())
	}

	for range r.intn(4) {
		m.Fins = append(m.Fins, s())
	}

	if r.chance(1, 2) {
		m.Labels = map[string]string{}
		for range r.intn(4) {
			m.Labels[s()] = s()
		}
	}

	if r.chance(1, 2) {
		m.Annot = map[string]string{}
		for range r.intn(4) {
			m.Annot[s()] = s()
		}
	}

	sec := int64(r.intn(4_000_000_000))
	m.CreatedNS = sec * 1_000_000_000
	m.UpdNS = sec*1_000_000_000 + int64(r.intn(1000))*1_000_000_000

	if r.chance(1, 2) {
		m.CreatedNS += int64(r.intn(1_000_000_000))
		m.UpdNS += int64(r.intn(1_000_000_000))
	}

	m.ZeroCreated, m.ZeroUpdated = r.chance(1, 8), r.chance(1, 8)

	return m
}

func mdDiff(a, b *resource.Metadata) string {
	if !a.Equal(*b) {
		return fmt.Sprintf("metadata differs: %v vs %v", a, b)
	}

	if !a.Created().Equal(b.Created()) || !a.Updated().Equal(b.Updated()) {
		return fmt.Sprintf("timestamps differ: created %v vs %v, updated %v vs %v", a.Created().UTC(), b.Created().UTC(), a.Updated().UTC(), b.Updated().UTC())
	}

	return ""
}

type stackSpec struct {
	Layers []string `json:"layers"` // outermost first: "zstd:<min>" | "toy:<min>" | "aes:<keyidx>"
}

func buildStack(spec stackSpec, keys [][]byte) (store.Marshaler, error) {
	var m store.Marshaler = store.ProtobufMarshaler{}

	for i := len(spec.Layers) - 1; i >= 0; i-- {
		var (
			kind string
			n    int
		)

		if _, err := fmt.Sscanf(strings.ReplaceAll(spec.Layers[i], ":", " "), "%s %d", &kind, &n); err != nil {
			return nil, err
		}

		switch kind {
		case "zstd":
			m = compression.NewMarshaler(m, compression.ZStd(), n)
		case "toy":
			m = compression.NewMarshaler(m, toyCompressor{}, n)
		case "aes":
			key := keys[n]
			m = encryption.NewMarshaler(m, encryption.NewCipher(encryption.KeyProviderFunc(func() ([]byte, error) { return key, nil })))
		}
	}

	return m, nil
}

func safely(what string, f func() error) (err error, panicked string) {
	defer func() {
		if p := recover(); p != nil {
			panicked = fmt.Sprintf("%s panicked: %v", what, p)
		}
	}()

	return f(), ""
}

func TestC18(t *testing.T) {
	dir := outDir(t)
	rep := newReport("C18", "(a) text forms: ParseVersion / Version.String / ParsePhase / Phase.String tables (edge and random strings and values over the whole uint64 range) compared with the model; "+
		"(b) framing: real compression.Marshaler stacks (depth 1-3, thresholds below/at/above the payload size) with a toy compressor over a verbatim innermost marshaler - outputs and, for arbitrary/mutated inputs, what reaches the innermost decoder or the error, compared byte for byte with the model; "+
		"(c) round trips of random resources (unicode/empty/YAML-hostile strings, label/annotation maps, finalizers, versions incl. >= 2^63, both phases, nanosecond timestamps) through the protobuf wire form, YAML metadata (and structurally odd whole-resource YAML documents into protobuf.YAMLResource), and store marshaler stacks protobuf|zstd|AES-GCM in every order on both sides of the size threshold; "+
		"(d) decoders fed truncated/bit-flipped/random bytes under recover (no panic; success only with a re-encodable resource), every single-byte corruption of an encrypted record, a wrong key and every key one bit away from the right one (at each of the 32 byte positions) must be detected; non-trivial = resource with maps+finalizers, or a malformed input")

	r := newRng(seed(), "C18")

	if os.Getenv("VERIF_REPLAY") != "" {
		rep.Notes = append(rep.Notes, "replay of a single case is the full deterministic run (seeded); see the case index in the replay file")
	}

	// ---- (a) text forms ----
	tf := newCoqFile("C18_text_cases", []string{"Text", "CodecCheck"}, "tcase", "text_mismatches")

	var tj []any

	vstrings := []string{"", "undefined", "Undefined", "undefined ", "0", "1", "007", "18446744073709551615", "18446744073709551616", "9223372036854775807", "9223372036854775808",
		"-1", "-5", "+5", "-0", "1_000", " 1", "1 ", "1e3", "0x10", "１２３", "99999999999999999999999999", "1.0", "\x00", "12a"}

	for range tier(150, 3000) {
		n := r.next() >> uint(r.intn(64))
		vstrings = append(vstrings, fmt.Sprint(n))

		if r.chance(1, 4) {
			b := []byte(fmt.Sprint(n))
			b[r.intn(len(b))] = byte(r.intn(256))
			vstrings = append(vstrings, string(b))
		}
	}

	for _, s := range vstrings {
		v, err := resource.ParseVersion(s)

		val := "None"
		if err == nil && v.String() != "undefined" {
			val = fmt.Sprintf("(Some %d%%N)", v.Value())
		}

		tf.add(fmt.Sprintf("TParseVersion %s %s %s", coqBytes([]byte(s)), coqBool(err == nil), val))
		tj = append(tj, map[string]any{"parse_version": s})
		rep.count("pv:"+s, err != nil)
		rep.hit("parse_version")

		// value -> text -> value on the real code
		if err == nil {
			back, err2 := resource.ParseVersion(v.String())
			if err2 != nil || !back.Equal(v) {
				rep.violateKey(len(tj), "text:version-roundtrip", fmt.Sprintf("version-roundtrip: ParseVersion(%q) = %s, whose text form %q does not parse back to it (%v)", s, v, v.String(), err2), map[string]any{"parse_version": s})
			}
		}
	}

	for _, n := range []uint64{0, 1, 9, 10, 1<<63 - 1, 1 << 63, ^uint64(0), r.next(), r.next()} {
		v, err := resource.ParseVersion(fmt.Sprint(n))
		if err != nil {
			rep.violateKey(len(tj), "text:version-roundtrip", fmt.Sprintf("version-roundtrip: version %d has the text form %q which ParseVersion rejects: %v", n, fmt.Sprint(n), err), map[string]any{"version": n})

			continue
		}

		tf.add(fmt.Sprintf("TVersionString (Some %d%%N) %s", n, coqBytes([]byte(v.String()))))
		tj = append(tj, map[string]any{"version_string": n})
	}

	tf.add(fmt.Sprintf("TVersionString None %s", coqBytes([]byte(resource.VersionUndefined.String()))))
	tj = append(tj, map[string]any{"version_string": "undefined"})

	for _, s := range []string{"running", "tearingDown", "", "Running", "tearingdown", "running ", "destroyed", "\x00"} {
		p, err := resource.ParsePhase(s)

		res := "None"
		if err == nil {
			res = "(Some " + coqBool(p == resource.PhaseTearingDown) + ")"
		}

		tf.add(fmt.Sprintf("TParsePhase %s %s", coqBytes([]byte(s)), res))
		tj = append(tj, map[string]any{"parse_phase": s})
	}

	tf.add(fmt.Sprintf("TPhaseString false %s", coqBytes([]byte(resource.PhaseRunning.String()))))
	tf.add(fmt.Sprintf("TPhaseString true %s", coqBytes([]byte(resource.PhaseTearingDown.String()))))
	tj = append(tj, map[string]any{"phase_string": 0}, map[string]any{"phase_string": 1})

	tf.finishSharded(t, dir, rep, tj, 400)

	// ---- (b) framing with the toy compressor ----
	ff := newCoqFile("C18_frame_cases", []string{"Frame", "CodecCheck"}, "fcase", "frame_mismatches")

	var fj []any

	coqNats := func(xs []int) string {
		ss := make([]string, len(xs))
		for i, x := range xs {
			ss[i] = fmt.Sprintf("%d%%nat", x)
		}

		return coqList(ss)
	}

	for range tier(400, 8000) {
		depth := 1 + r.intn(3)
		mins := make([]int, depth)
		plen := r.intn(12)

		payload := make([]byte, plen)
		for i := range payload {
			payload[i] = byte(1 + r.intn(255))
		}

		if plen > 0 && r.chance(1, 6) {
			payload[0] = 0 // a payload the protobuf marshaler would never emit: exercises the decoder only
		}

		for i := range mins {
			mins[i] = pick(r, []int{0, plen, plen + 1, plen + 2, plen + 3, plen + 4, 100})
		}

		var got []byte

		var m store.Marshaler = fakeInner{got: &got}
		for i := depth - 1; i >= 0; i-- {
			m = compression.NewMarshaler(m, toyCompressor{}, mins[i])
		}

		out, err := m.MarshalResource(newRes("n", "T", "x", string(payload)))
		if err != nil {
			t.Fatal(err)
		}

		ff.add(fmt.Sprintf("FMarshal %s %s %s", coqNats(mins), coqBytes(payload), coqBytes(out)))
		fj = append(fj, map[string]any{"frame_marshal": mins, "payload": payload})

		// decode: the genuine output, and mutated / arbitrary inputs
		inputs := [][]byte{out}

		mut := append([]byte(nil), out...)
		if len(mut) > 0 {
			mut[r.intn(len(mut))] = byte(pick(r, []int{0, 0, 't', 'z', 1, r.intn(256)}))
			inputs = append(inputs, mut, out[:r.intn(len(out))])
		}

		rnd := make([]byte, r.intn(6))
		for i := range rnd {
			rnd[i] = byte(pick(r, []int{0, 0, 't', 'z', r.intn(256)}))
		}

		inputs = append(inputs, rnd)

		for _, in := range inputs {
			got = nil

			var derr error

			_, p := safely("compression.UnmarshalResource", func() error { _, derr = m.UnmarshalResource(in); return derr })
			if p != "" {
				rep.violateKey(len(fj), "frame:decoder-panic", "decoder-panic: "+p, map[string]any{"frame_unmarshal": mins, "input": in})

				continue
			}

			res := "None"
			if derr == nil {
				res = "(Some " + coqBytes(got) + ")"
			}

			ff.add(fmt.Sprintf("FUnmarshal %s %s %s", coqNats(mins), coqBytes(in), res))
			fj = append(fj, map[string]any{"frame_unmarshal": mins, "input": in})
			rep.count(fmt.Sprint(mins, in), !bytes.Equal(in, out))
			rep.hit("frame_decode")
		}
	}

	ff.finishSharded(t, dir, rep, fj, 400)

	// ---- (c)+(d) real codecs ----
	keys := [][]byte{make([]byte, 32), make([]byte, 32)}
	rand.Read(keys[0]) //nolint:errcheck
	rand.Read(keys[1]) //nolint:errcheck

	for i := range tier(400, 8000) {
		m := genC18Meta(r)
		res := m.build()
		replay := map[string]any{"resource": m, "index": i}
		nontrivial := len(m.Fins) > 0 && len(m.Labels) > 0

		key, _ := json.Marshal(m)
		rep.count(string(key), nontrivial)

		viol := func(k, what string) { rep.violateKey(i, k, what, replay) }

		// versions that cannot be reached through ParseVersion are a finding of (a); skip the rest for them
		if m.Ver != nil && res.Metadata().Version().Value() != *m.Ver {
			continue
		}

		// protobuf wire form
		_, p := safely("protobuf round trip", func() error {
			pr, err := protobuf.FromResource(res)
			if err != nil {
				return err
			}

			msg, err := pr.Marshal()
			if err != nil {
				return err
			}

			wire, err := protobuf.ProtoMarshal(msg)
			if err != nil {
				return err
			}

			var back v1alpha1.Resource
			if err := protobuf.ProtoUnmarshal(wire, &back); err != nil {
				viol("wire:decode-error", "wire-roundtrip: own encoding rejected: "+err.Error())

				return nil
			}

			pr2, err := protobuf.Unmarshal(&back)
			if err != nil {
				viol("wire:decode-error", "wire-roundtrip: own encoding rejected: "+err.Error())

				return nil
			}

			r2, err := protobuf.UnmarshalResource(pr2)
			if err != nil {
				viol("wire:decode-error", "wire-roundtrip: own encoding rejected: "+err.Error())

				return nil
			}

			if d := mdDiff(res.Metadata(), r2.Metadata()); d != "" {
				viol("wire:roundtrip-differs", "wire-roundtrip: "+d)
			}

			if payloadOf(r2) != m.Payload {
				viol("wire:roundtrip-differs", fmt.Sprintf("wire-roundtrip: spec %q became %q", m.Payload, payloadOf(r2)))
			}

			rep.hit("wire_roundtrip")

			// malformed stream: truncations and bit flips of the wire form
			for k := 0; k < 6 && len(wire) > 0; k++ {
				bad := append([]byte(nil), wire...)

				switch k % 3 {
				case 0:
					bad = bad[:r.intn(len(bad))]
				case 1:
					bad[r.intn(len(bad))] ^= byte(1 << r.intn(8))
				default:
					for j := range bad {
						if r.chance(1, 8) {
							bad[j] = byte(r.intn(256))
						}
					}
				}

				_, pp := safely("wire decoder", func() error {
					var b v1alpha1.Resource
					if err := protobuf.ProtoUnmarshal(bad, &b); err != nil {
						return nil
					}

					pr, err := protobuf.Unmarshal(&b)
					if err != nil {
						return nil
					}

					rr, err := protobuf.UnmarshalResource(pr)
					if err != nil {
						return nil
					}

					// accepted: must be a well-formed resource (re-encodable)
					if _, err := (store.ProtobufMarshaler{}).MarshalResource(rr); err != nil {
						viol("wire:accepted-malformed", "decoder accepted bytes that yield a resource which cannot be re-encoded: "+err.Error())
					}

					return nil
				})
				if pp != "" {
					viol("wire:decoder-panic", "decoder-panic: "+pp)
				}

				rep.hit("wire_malformed")
			}

			return nil
		})
		if p != "" {
			viol("wire:panic", "panic: "+p)
		}

		// YAML metadata
		_, p = safely("yaml round trip", func() error {
			out, err := yaml.Marshal(res.Metadata())
			if err != nil {
				viol("yaml:encode-error", "yaml: "+err.Error())

				return nil
			}

			var back resource.Metadata
			if err := yaml.Unmarshal(out, &back); err != nil {
				viol("yaml:decode-error", fmt.Sprintf("yaml-roundtrip: own encoding rejected: %v\n%s", err, out))

				return nil
			}

			if !res.Metadata().Equal(back) {
				viol("yaml:roundtrip-differs", fmt.Sprintf("yaml-roundtrip: metadata %v became %v", res.Metadata(), &back))
			}

			if !res.Metadata().Created().Equal(back.Created()) || !res.Metadata().Updated().Equal(back.Updated()) {
				if res.Metadata().Created().Truncate(time.Second).Equal(back.Created()) && res.Metadata().Updated().Truncate(time.Second).Equal(back.Updated()) {
					viol("yaml:timestamp-subsecond", fmt.Sprintf("yaml-roundtrip: sub-second part of the timestamps is lost (created %v -> %v)", res.Metadata().Created().UTC(), back.Created().UTC()))
				} else {
					viol("yaml:timestamp-differs", fmt.Sprintf("yaml-roundtrip: timestamps differ beyond truncation (created %v -> %v, updated %v -> %v)", res.Metadata().Created().UTC(), back.Created().UTC(), res.Metadata().Updated().UTC(), back.Updated().UTC()))
				}
			}

			rep.hit("yaml_roundtrip")

			// malformed YAML: truncations / substitutions
			for k := 0; k < 4 && len(out) > 0; k++ {
				bad := append([]byte(nil), out...)
				if k%2 == 0 {
					bad = bad[:r.intn(len(bad))]
				} else {
					bad[r.intn(len(bad))] = pick(r, []byte{':', '\n', '-', '[', '{', ' ', '"', 0})
				}

				_, pp := safely("yaml decoder", func() error {
					var b resource.Metadata

					return yaml.Unmarshal(bad, &b)
				})
				if pp != "" {
					viol("yaml:decoder-panic", "decoder-panic: "+pp+" on "+fmt.Sprintf("%q", bad))
				}

				rep.hit("yaml_malformed")
			}

			return nil
		})
		if p != "" {
			viol("yaml:panic", "panic: "+p)
		}

		// the whole-resource YAML decoder (protobuf.YAMLResource) on structurally odd documents built around this
		// resource's own metadata: sections missing, duplicated, of the wrong node kind, extra keys
		if mdOut, err := yaml.Marshal(res.Metadata()); err == nil {
			ind := "  " + strings.ReplaceAll(strings.TrimRight(string(mdOut), "\n"), "\n", "\n  ") + "\n"
			md := "metadata:\n" + ind
			sp := "spec:\n  value: 1\n"

			for _, doc := range []string{
				md + sp, sp + md, md + md, sp + sp, md, sp, md + "other:\n  a: 1\n", md + "spec: 7\n", "metadata: x\n" + sp, md + "spec: [1, 2]\n",
				"- a\n- b\n", "", "metadata:\n" + ind + "spec:\n  value: 1\nspec:\n  value: 2\n", "? [a]\n: {b: 1}\nspec:\n  value: 1\n", md + sp + "---\n" + md + sp,
			} {
				_, pp := safely("YAMLResource decoder", func() error {
					var yr protobuf.YAMLResource

					return yaml.Unmarshal([]byte(doc), &yr)
				})
				if pp != "" {
					viol("yaml:resource-decoder-panic", "decoder-panic: "+pp+" on "+fmt.Sprintf("%q", doc))
				}

				rep.hit("yaml_resource_structural")
			}
		}

		// store marshaler stacks
		base, _ := (store.ProtobufMarshaler{}).MarshalResource(res) //nolint:errcheck
		size := len(base)

		var spec stackSpec

		// one compressor per stack: the format identifies the compressor by a single ID byte, a stack mixing two
		// different compressors is not something the system can build (only zstd ships)
		comp := pick(r, []string{"zstd", "zstd", "toy"})

		for range 1 + r.intn(3) {
			switch r.intn(3) {
			case 0, 1:
				spec.Layers = append(spec.Layers, fmt.Sprintf("%s:%d", comp, pick(r, []int{0, size - 1, size, size + 1, size + 16, size + 40, 1 << 20})))
			default:
				spec.Layers = append(spec.Layers, "aes:0")
			}
		}

		replay["stack"] = spec

		_, p = safely("store stack", func() error {
			st, err := buildStack(spec, keys)
			if err != nil {
				return err
			}

			enc, err := st.MarshalResource(res)
			if err != nil {
				viol("stack:encode-error", "stack "+fmt.Sprint(spec.Layers)+": "+err.Error())

				return nil
			}

			back, err := st.UnmarshalResource(enc)
			if err != nil {
				viol("stack:decode-error", "stack-roundtrip "+fmt.Sprint(spec.Layers)+": own encoding rejected: "+err.Error())

				return nil
			}

			if d := mdDiff(res.Metadata(), back.Metadata()); d != "" {
				viol("stack:roundtrip-differs", "stack-roundtrip "+fmt.Sprint(spec.Layers)+": "+d)
			}

			if payloadOf(back) != m.Payload {
				viol("stack:roundtrip-differs", "stack-roundtrip: spec differs")
			}

			// a resource of a type this process has not registered travels as the generic protobuf.Resource, carrying its
			// YAML rendering next to the protobuf spec: it must come back from the store unchanged as well
			mz := m
			mz.Typ = "Z"

			if pr, err := protobuf.FromResource(mz.build()); err == nil {
				if msg, err := pr.Marshal(); err == nil {
					if generic, err := protobuf.Unmarshal(msg); err == nil {
						render := func(r resource.Resource) string {
							y, err := resource.MarshalYAML(r)
							if err != nil {
								return "error: " + err.Error()
							}

							b, err := yaml.Marshal(y)
							if err != nil {
								return "error: " + err.Error()
							}

							return string(b)
						}

						encG, err := st.MarshalResource(generic)
						if err != nil {
							viol("stack:encode-error", "stack "+fmt.Sprint(spec.Layers)+" (generic resource): "+err.Error())
						} else if backG, err := st.UnmarshalResource(encG); err != nil {
							viol("stack:decode-error", "stack-roundtrip "+fmt.Sprint(spec.Layers)+" (generic resource): own encoding rejected: "+err.Error())
						} else {
							if d := mdDiff(generic.Metadata(), backG.Metadata()); d != "" {
								viol("stack:roundtrip-differs", "stack-roundtrip (generic resource) "+fmt.Sprint(spec.Layers)+": "+d)
							} else if before, after := render(generic), render(backG); before != after {
								viol("stack:generic-spec-lost", fmt.Sprintf("stack-roundtrip (generic resource) %v: rendered before the store round trip:\n%s\nafter:\n%s", spec.Layers, before, after))
							}

							rep.hit("stack_generic_roundtrip")
						}
					}
				}
			}

			// records are written in batches and read back later: an encoded record must not change when further records
			// are encoded with the same marshaler (a smaller and a larger sibling, so that any reused buffer is overwritten)
			keep := append([]byte(nil), enc...)

			for _, pl := range []string{m.Payload + "-sibling", strings.Repeat("z", len(m.Payload)/2+1)} {
				sib := newRes(m.NS, m.Typ, m.ID+"x", pl)
				if _, err := st.MarshalResource(sib); err != nil {
					viol("stack:encode-error", "stack "+fmt.Sprint(spec.Layers)+": "+err.Error())
				}
			}

			if !bytes.Equal(keep, enc) {
				viol("stack:record-aliased", "stack-roundtrip "+fmt.Sprint(spec.Layers)+": the bytes returned by MarshalResource changed when other resources were marshaled afterwards")
			} else if again, err := st.UnmarshalResource(enc); err != nil || mdDiff(res.Metadata(), again.Metadata()) != "" {
				viol("stack:record-aliased", fmt.Sprintf("stack-roundtrip %v: a record no longer decodes to its resource after other resources were marshaled (%v)", spec.Layers, err))
			}

			rep.hit("stack_roundtrip")
			rep.hit("stack_depth_" + fmt.Sprint(len(spec.Layers)))

			// tampering / wrong key on stacks whose outermost layer encrypts
			if strings.HasPrefix(spec.Layers[0], "aes") {
				positions := make([]int, 0, 96)
				if len(enc) <= 96 {
					for k := range enc {
						positions = append(positions, k)
					}
				} else {
					// header, nonce and tag bytes always; a sample of the body
					for k := range 16 {
						positions = append(positions, k, len(enc)-1-k)
					}

					for range 64 {
						positions = append(positions, r.intn(len(enc)))
					}
				}

				for _, k := range positions {
					bad := append([]byte(nil), enc...)
					bad[k] ^= byte(1 << r.intn(8))

					if rr, err := st.UnmarshalResource(bad); err == nil {
						viol("stack:tamper-undetected", fmt.Sprintf("tamper: flipping a bit of byte %d of an encrypted record was not detected (decoded %v)", k, rr.Metadata()))
					}
				}

				for _, short := range [][]byte{nil, enc[:1], enc[:13], enc[:len(enc)-1]} {
					if _, err := st.UnmarshalResource(short); err == nil {
						viol("stack:tamper-undetected", fmt.Sprintf("tamper: truncated record of %d bytes accepted", len(short)))
					}
				}

				// whole-record substitution by well-formed plaintext encodings (of this and of the inner layers' output)
				forged := newRes(m.NS, m.Typ, m.ID, "forged")
				forged.Metadata().SetOwner("attacker") //nolint:errcheck

				if inner, err := buildStack(stackSpec{Layers: spec.Layers[1:]}, keys); err == nil {
					for _, layers := range []store.Marshaler{store.ProtobufMarshaler{}, inner} {
						if plain, err := layers.MarshalResource(forged); err == nil {
							if rr, err := st.UnmarshalResource(plain); err == nil {
								viol("stack:tamper-undetected", fmt.Sprintf("tamper: an unencrypted record substituted for an encrypted one was accepted (decoded %v)", rr.Metadata()))
							}
						}
					}
				}

				// every key one bit away from the right one, at every byte position, must be refused
				if spec.Layers[0] == "aes:0" {
					for k := range keys[0] {
						near := [][]byte{append([]byte(nil), keys[0]...), keys[1]}
						near[0][k] ^= byte(1 << r.intn(8))

						if stn, err := buildStack(spec, near); err == nil {
							if _, err := stn.UnmarshalResource(enc); err == nil {
								viol("stack:wrong-key-undetected", fmt.Sprintf("wrong-key: a key differing from the right one only in byte %d decrypts the record", k))
							}
						}
					}

					rep.hit("near_keys")
				}

				other := stackSpec{Layers: append([]string{"aes:1"}, spec.Layers[1:]...)}

				st2, _ := buildStack(other, keys) //nolint:errcheck
				if _, err := st2.UnmarshalResource(enc); err == nil {
					viol("stack:wrong-key-undetected", "wrong-key: a record encrypted under one key decoded under another")
				}

				rep.hit("tamper")
			}

			// arbitrary bytes into the whole stack
			for k := 0; k < 3; k++ {
				bad := append([]byte(nil), enc...)
				if len(bad) > 0 {
					bad[r.intn(len(bad))] = byte(r.intn(256))
				}

				if k == 2 {
					bad = bad[:r.intn(len(bad)+1)]
				}

				_, pp := safely("stack decoder", func() error { _, e := st.UnmarshalResource(bad); return e })
				if pp != "" {
					viol("stack:decoder-panic", "decoder-panic: "+pp+" stack "+fmt.Sprint(spec.Layers))
				}

				rep.hit("stack_malformed")
			}

			return nil
		})
		if p != "" {
			viol("stack:panic", "panic: "+p)
		}
	}

	// ---- (e) the generated wire code against the byte-level model ----
	c18WirePhase(t, dir, rep, newRng(seed(), "C18-wire"))

	// ---- (f) resource.Metadata <-> bytes against MetaWire.v ----
	c18MetaPhase(t, dir, rep, newRng(seed(), "C18-meta"))

	rep.Assumptions = append(rep.Assumptions, "strings are valid UTF-8 (proto3 string fields); zstd, AES-GCM and the YAML library are exercised, not modelled")
	rep.write(t, dir)
}
