//go:build verif

package harness

// C18, metadata phase: resource.Metadata <-> bytes against MetaWire.v.
//   - metadata of real resources (every version incl. undefined and >= 2^63, both phases, zero and nanosecond
//     timestamps, finalizers, maps) through protobuf.FromResource / Resource.Marshal / Metadata.MarshalVT: the model
//     must read the bytes back to the same metadata and produce the same size (and bytes without multi-entry maps);
//   - protobuf-level messages (valid and invalid version / phase texts, timestamps absent or with nanos outside
//     [0, 1e9) or extreme seconds, repeated finalizers) through Metadata.UnmarshalVT and resource.NewMetadataFromProto:
//     error or the very metadata the model computes.

import (
	"fmt"
	"testing"
	"time"

	"google.golang.org/protobuf/types/known/timestamppb"

	"github.com/cosi-project/runtime/api/v1alpha1"
	"github.com/cosi-project/runtime/pkg/resource"
	"github.com/cosi-project/runtime/pkg/resource/protobuf"
)

func coqRtime(t time.Time) string {
	return fmt.Sprintf("(mkRt %s %s)", coqN(uint64(t.Unix())), coqN(uint64(t.Nanosecond())))
}

func coqRmeta(md *resource.Metadata) string {
	ver := "None"
	if md.Version().String() != "undefined" {
		ver = fmt.Sprintf("(Some %s)", coqN(md.Version().Value()))
	}

	fins := make([]string, 0, len(*md.Finalizers()))
	for _, f := range *md.Finalizers() {
		fins = append(fins, coqBstr(f))
	}

	return fmt.Sprintf("(mkRm %s %s %s %s %s %s %s %s %s %s %s)", coqBstr(md.Namespace()), coqBstr(md.Type()), coqBstr(md.ID()), ver, coqBstr(md.Owner()),
		coqBool(md.Phase() == resource.PhaseTearingDown), coqRtime(md.Created()), coqRtime(md.Updated()), coqList(fins), coqKvs(md.Labels().Raw()), coqKvs(md.Annotations().Raw()))
}

func c18MetaPhase(t *testing.T, dir string, rep *Report, r *rng) {
	mf := newCoqFile("C18_meta_cases", []string{"MetaWire", "MetaWireCheck"}, "mcase", "meta_mismatches")

	var mj []any

	// real resources
	for i := range tier(60, 1200) {
		meta := genC18Meta(r)
		if len(meta.Payload) > 400 {
			meta.Payload = "p"
		}

		res := meta.build()

		pr, err := protobuf.FromResource(res, protobuf.WithoutYAML())
		if err != nil {
			continue
		}

		pm, err := pr.Marshal()
		if err != nil {
			continue
		}

		b, err := pm.Metadata.MarshalVT()
		if err != nil {
			continue
		}

		mf.add(fmt.Sprintf("MEnc %s %s", coqRmeta(res.Metadata()), coqBytes(b)))
		mj = append(mj, map[string]any{"marshal_metadata_of": meta, "i": i})
		rep.count(fmt.Sprintf("menc:%x", b), len(meta.Fins)+len(meta.Labels)+len(meta.Annot) > 0)
		rep.hit("meta-enc")
	}

	// protobuf-level messages
	versions := []string{"undefined", "0", "1", "42", "18446744073709551615", "9223372036854775808", "18446744073709551616", "", "-1", "+1", "1x", "Undefined"}
	phases := []string{"running", "tearingDown", "running", "tearingDown", "", "Running", "destroyed"}
	stamps := []*timestamppb.Timestamp{
		nil, {}, {Seconds: 1700000000, Nanos: 999999999}, {Seconds: 1700000000, Nanos: 1000000000}, {Seconds: 5, Nanos: -1}, {Seconds: 5, Nanos: -1000000001},
		{Seconds: 5, Nanos: 2147483647}, {Seconds: 5, Nanos: -2147483648}, {Seconds: -62135596800}, {Seconds: -1, Nanos: 500},
		{Seconds: 9223372036854775807, Nanos: 1500000000}, {Seconds: -9223372036854775808, Nanos: -5},
	}

	for range tier(150, 3000) {
		m := genWireMd(r)
		m.Version = pick(r, versions)
		m.Phase = pick(r, phases)

		if r.chance(1, 6) {
			m.Version = fmt.Sprint(r.next() >> uint(r.intn(64)))
		}

		m.Created, m.Updated = pick(r, stamps), pick(r, stamps)

		if r.chance(1, 3) && len(m.Finalizers) > 0 {
			m.Finalizers = append(m.Finalizers, m.Finalizers[0], pick(r, wireStrings[:6]))
		}

		b, err := m.MarshalVT()
		if err != nil {
			continue
		}

		var back v1alpha1.Metadata

		obs := "None"

		err, pan := safely("metadata from bytes", func() error {
			if err := back.UnmarshalVT(b); err != nil {
				return err
			}

			md, err := resource.NewMetadataFromProto(&back)
			if err != nil {
				return err
			}

			obs = "(Some " + coqRmeta(&md) + ")"

			return nil
		})
		if pan != "" {
			rep.violateKey(len(mj), "meta:decoder-panic", "decoder-panic: "+pan, map[string]any{"metadata_bytes": b})

			continue
		}

		if err != nil {
			obs = "None"
		}

		mf.add(fmt.Sprintf("MDec %s %s", coqBytes(b), obs))
		mj = append(mj, map[string]any{"metadata_from_bytes": b})
		rep.count(fmt.Sprintf("mdec:%x", b), true)
		rep.hit("meta-dec:" + map[bool]string{true: "accepted", false: "rejected"}[err == nil])
	}

	mf.finishSharded(t, dir, rep, mj, 250)
}
