//go:build verif

package harness

// C18, wire phase: the generated protobuf code of v1alpha1.Resource / Metadata / Spec (MarshalVT / UnmarshalVT,
// what store.ProtobufMarshaler and the gRPC layer use) against the byte-level model WireMsg.v.
//   - messages built directly at the protobuf level (any bytes in strings, negative seconds / nanos, absent
//     sub-messages, maps, finalizers) and resources marshaled through store.ProtobufMarshaler are encoded by the real
//     code; the model's decoder must read the bytes back to the same message, sizes (and bytes, when no map has two
//     entries) must agree with the model's encoder;
//   - valid encodings mutated structurally (truncation, flipped bytes, foreign fields of every wire type, nested and
//     stray groups, field number 0 / negative / aliasing modulo 2^32, over-long and eleven-byte varints, wrong wire
//     types, negative and over-long lengths, repeated scalar / message / map fields, map entries whose strings run
//     past the entry) and random bytes are decoded by the real code under recover; the model must agree on
//     accepted / rejected and on every field of the accepted message, unknown bytes included.

import (
	"fmt"
	"sort"
	"strings"
	"testing"

	"google.golang.org/protobuf/types/known/timestamppb"

	"github.com/cosi-project/runtime/api/v1alpha1"
	"github.com/cosi-project/runtime/pkg/state/impl/store"
)

func coqBstr(s string) string { return coqBytes([]byte(s)) }

func coqTs(ts *timestamppb.Timestamp) string {
	if ts == nil {
		return "None"
	}

	return fmt.Sprintf("(Some (mkTs %s %s))", coqN(uint64(ts.Seconds)), coqN(uint64(uint32(ts.Nanos))))
}

func coqKvs(m map[string]string) string {
	keys := make([]string, 0, len(m))
	for k := range m {
		keys = append(keys, k)
	}

	sort.Strings(keys)

	items := make([]string, len(keys))
	for i, k := range keys {
		items[i] = "(" + coqBstr(k) + ", " + coqBstr(m[k]) + ")"
	}

	return coqList(items)
}

func coqWireMd(m *v1alpha1.Metadata) string {
	fins := make([]string, len(m.Finalizers))
	for i, f := range m.Finalizers {
		fins[i] = coqBstr(f)
	}

	return fmt.Sprintf("(mkMd %s %s %s %s %s %s %s %s %s %s %s %s)", coqBstr(m.Namespace), coqBstr(m.Type), coqBstr(m.Id), coqBstr(m.Version), coqBstr(m.Owner), coqBstr(m.Phase),
		coqTs(m.Created), coqTs(m.Updated), coqList(fins), coqKvs(m.Labels), coqKvs(m.Annotations), coqBytes(m.ProtoReflect().GetUnknown()))
}

func coqWireRes(x *v1alpha1.Resource) string {
	md, sp := "None", "None"
	if x.Metadata != nil {
		md = "(Some " + coqWireMd(x.Metadata) + ")"
	}

	if x.Spec != nil {
		sp = fmt.Sprintf("(Some (mkSp %s %s %s))", coqBytes(x.Spec.ProtoSpec), coqBstr(x.Spec.YamlSpec), coqBytes(x.Spec.ProtoReflect().GetUnknown()))
	}

	return fmt.Sprintf("(mkWr %s %s %s)", md, sp, coqBytes(x.ProtoReflect().GetUnknown()))
}

var wireStrings = []string{"", "", "a", "ns", "default", "k1", "\x00", "\xff\xfe", "üñ", "running", "tearingDown", "18446744073709551615", "with space", strings.Repeat("x", 127), strings.Repeat("y", 128), strings.Repeat("z", 300)}

func genWireTs(r *rng) *timestamppb.Timestamp {
	switch r.intn(8) {
	case 0:
		return nil
	case 1:
		return &timestamppb.Timestamp{}
	case 2:
		return &timestamppb.Timestamp{Seconds: -1, Nanos: -1}
	case 3:
		return &timestamppb.Timestamp{Seconds: -62135596800, Nanos: 0} // the zero time.Time
	case 4:
		return &timestamppb.Timestamp{Seconds: int64(r.next()), Nanos: int32(r.next())}
	default:
		return &timestamppb.Timestamp{Seconds: int64(r.intn(2_000_000_000)), Nanos: int32(r.intn(1_000_000_000))}
	}
}

func genWireMd(r *rng) *v1alpha1.Metadata {
	s := func() string { return pick(r, wireStrings) }
	short := func() string { return pick(r, wireStrings[:12]) }
	m := &v1alpha1.Metadata{Namespace: s(), Type: short(), Id: short(), Version: short(), Owner: short(), Phase: short(), Created: genWireTs(r), Updated: genWireTs(r)}

	for range r.intn(4) {
		m.Finalizers = append(m.Finalizers, short())
	}

	if r.chance(2, 3) {
		m.Labels = map[string]string{}
		for range r.intn(4) {
			m.Labels[short()] = short()
		}
	}

	if r.chance(1, 2) {
		m.Annotations = map[string]string{}
		for range r.intn(3) {
			m.Annotations[short()] = s()
		}
	}

	return m
}

func genWireRes(r *rng) *v1alpha1.Resource {
	x := &v1alpha1.Resource{}
	if !r.chance(1, 8) {
		x.Metadata = genWireMd(r)
	}

	if !r.chance(1, 6) {
		x.Spec = &v1alpha1.Spec{YamlSpec: pick(r, wireStrings)}
		if r.chance(2, 3) {
			x.Spec.ProtoSpec = []byte(pick(r, wireStrings))
		}
	}

	return x
}

func wireVarint(v uint64) []byte {
	var out []byte
	for v >= 0x80 {
		out = append(out, byte(v)|0x80)
		v >>= 7
	}

	return append(out, byte(v))
}

// foreign or hostile pieces that can be spliced between the fields of a message
func wireHostilePieces(r *rng) [][]byte {
	tag := func(fn uint64, wt uint64) []byte { return wireVarint(fn<<3 | wt) }
	cat := func(bs ...[]byte) []byte {
		var out []byte
		for _, b := range bs {
			out = append(out, b...)
		}

		return out
	}
	str := func(fn uint64, s string) []byte { return cat(tag(fn, 2), wireVarint(uint64(len(s))), []byte(s)) }
	entry := func(fn uint64, body []byte) []byte { return cat(tag(fn, 2), wireVarint(uint64(len(body))), body) }

	return [][]byte{
		cat(tag(15, 0), wireVarint(r.next())),                                         // unknown varint
		cat(tag(15, 0), []byte{0xff, 0xff, 0xff, 0xff, 0xff, 0xff, 0xff, 0xff, 0xff, 0x7f}), // ten bytes, high bits set
		cat(tag(15, 0), []byte{0x80, 0x80, 0x80, 0x80, 0x80, 0x80, 0x80, 0x80, 0x80, 0x80, 0x01}), // eleven bytes
		cat(tag(16, 1), []byte{1, 2, 3, 4, 5, 6, 7, 8}),                               // fixed64
		cat(tag(16, 1), []byte{1, 2, 3}),                                              // fixed64 cut short
		cat(tag(17, 5), []byte{9, 8, 7, 6}),                                           // fixed32
		str(18, "unknown"),                                                            // unknown bytes
		cat(tag(19, 3), str(1, "in"), tag(7, 3), tag(7, 4), tag(19, 4)),               // nested groups
		cat(tag(19, 3), str(1, "open")),                                               // group never closed
		tag(19, 4),                                                                    // stray end group
		tag(0, 2),                                                                     // field number 0
		cat(tag(1<<29-1, 0), []byte{1}),                                               // largest legal field number
		cat(wireVarint((1<<31)<<3|0), []byte{1}),                                      // int32(field) negative
		cat(wireVarint(((1<<32)+1)<<3|2), wireVarint(2), []byte("al")),                // field number 1 modulo 2^32
		cat(wireVarint(((1<<32)+9)<<3|2), wireVarint(1), []byte("f")),                 // field number 9 modulo 2^32
		cat(tag(1, 0), []byte{5}),                                                     // known field, wrong wire type
		cat(tag(9, 5), []byte{1, 2, 3, 4}),                                            // known field, fixed32
		cat(tag(7, 3)),                                                                // known field as a group
		cat(tag(3, 2), []byte{0xff, 0xff, 0xff, 0xff, 0xff, 0xff, 0xff, 0xff, 0xff, 0x01}), // length 2^64-1 (negative)
		cat(tag(3, 2), []byte{0x80, 0x80, 0x80, 0x80, 0x80, 0x80, 0x80, 0x80, 0x80, 0x02}), // bit 64: dropped, length 0
		cat(tag(3, 2), wireVarint(1<<62)),                                             // huge positive length
		cat(tag(2, 2), wireVarint(200), []byte("short")),                              // length past the end
		str(1, "again"), str(6, "twice"),                                              // repeated scalars
		entry(7, cat(tag(1, 0), wireVarint(77))),                                      // second Created: merged
		entry(8, cat(tag(2, 0), wireVarint(^uint64(0)))),                              // nanos = -1 via 64-bit varint
		entry(7, cat(tag(1, 2), wireVarint(0))),                                       // seconds with the wrong wire type
		entry(8, str(5, "ts-unknown")),                                                // unknown field inside a timestamp
		entry(10, cat(str(1, "k1"), str(2, "again"))),                                 // label overwritten
		entry(10, nil),                                                                // empty entry: "" -> ""
		entry(10, str(2, "only-value")),
		entry(11, cat(str(1, "k"), str(1, "k2"), str(2, "v"), str(2, "v2"))),          // repeated key / value inside an entry
		entry(10, cat(str(1, "k"), tag(9, 0), wireVarint(5), str(2, "v"))),            // foreign field inside an entry
		entry(10, cat(tag(1, 0), wireVarint(1), []byte("q"), str(2, "v"))),            // key with wire type 0: read as a string all the same
		cat(tag(10, 2), wireVarint(3), tag(1, 2), wireVarint(4), []byte("kkkk")),      // key runs past the entry (into what follows)
		cat(tag(11, 2), wireVarint(2), tag(3, 2), wireVarint(9), []byte("123456789")), // skipped field runs past the entry
		cat(tag(10, 2), wireVarint(2), tag(0, 4)),                                     // end group inside an entry
		cat(tag(10, 0), wireVarint(3)),                                                // map field with wire type 0
	}
}

type wireMsg interface {
	MarshalVT() ([]byte, error)
}

func c18WirePhase(t *testing.T, dir string, rep *Report, r *rng) {
	wf := newCoqFile("C18_wire_cases", []string{"WireMsg", "WireMsgCheck"}, "wcase", "wire_mismatches")

	var wj []any

	decRes := func(b []byte, how string) {
		var x v1alpha1.Resource

		err, pan := safely("Resource.UnmarshalVT", func() error { return x.UnmarshalVT(b) })
		if pan != "" {
			rep.violateKey(len(wj), "wire:decoder-panic", fmt.Sprintf("decoder-panic: v1alpha1.Resource.UnmarshalVT panicked on %d bytes (%s): %s", len(b), how, pan), map[string]any{"resource_bytes": b})

			return
		}

		obs := "None"
		if err == nil {
			obs = "(Some " + coqWireRes(&x) + ")"
		}

		wf.add(fmt.Sprintf("WDecRes %s %s", coqBytes(b), obs))
		wj = append(wj, map[string]any{"unmarshal_resource": b, "how": how})
		rep.count(fmt.Sprintf("wdr:%x", b), how != "valid")
		rep.hit("wire-dec-res:" + how + map[bool]string{true: ":accepted", false: ":rejected"}[err == nil])
	}

	decMd := func(b []byte, how string) {
		var x v1alpha1.Metadata

		err, pan := safely("Metadata.UnmarshalVT", func() error { return x.UnmarshalVT(b) })
		if pan != "" {
			rep.violateKey(len(wj), "wire:decoder-panic", fmt.Sprintf("decoder-panic: v1alpha1.Metadata.UnmarshalVT panicked on %d bytes (%s): %s", len(b), how, pan), map[string]any{"metadata_bytes": b})

			return
		}

		obs := "None"
		if err == nil {
			obs = "(Some " + coqWireMd(&x) + ")"
		}

		wf.add(fmt.Sprintf("WDecMd %s %s", coqBytes(b), obs))
		wj = append(wj, map[string]any{"unmarshal_metadata": b, "how": how})
		rep.count(fmt.Sprintf("wdm:%x", b), how != "valid")
		rep.hit("wire-dec-md:" + how + map[bool]string{true: ":accepted", false: ":rejected"}[err == nil])
	}

	splice := func(b []byte, at int, piece []byte) []byte {
		out := append([]byte{}, b[:at]...)
		out = append(out, piece...)

		return append(out, b[at:]...)
	}

	// field boundaries of a top-level message (positions where a piece can be spliced without cutting a field)
	bounds := func(b []byte) []int {
		out := []int{0}

		for i := 0; i < len(b); {
			j := i
			var tag uint64
			for sh := uint(0); j < len(b); sh += 7 {
				c := b[j]
				j++
				tag |= uint64(c&0x7f) << sh
				if c < 0x80 {
					break
				}
			}

			if tag&7 != 2 {
				return out
			}

			var n uint64
			for sh := uint(0); j < len(b); sh += 7 {
				c := b[j]
				j++
				n |= uint64(c&0x7f) << sh
				if c < 0x80 {
					break
				}
			}

			i = j + int(n)
			if i > len(b) {
				return out
			}

			out = append(out, i)
		}

		return out
	}

	nMsgs := tier(60, 1200)

	for i := range nMsgs {
		// --- metadata level ---
		m := genWireMd(r)

		mb, err := m.MarshalVT()
		if err != nil {
			rep.violateKey(len(wj), "wire:marshal-error", fmt.Sprintf("marshal-error: Metadata.MarshalVT failed: %v", err), nil)

			continue
		}

		wf.add(fmt.Sprintf("WEncMd %s %s", coqWireMd(m), coqBytes(mb)))
		wj = append(wj, map[string]any{"marshal_metadata": i})
		rep.count(fmt.Sprintf("wem:%x", mb), len(m.Labels)+len(m.Annotations)+len(m.Finalizers) > 0)
		rep.hit("wire-enc-md")

		decMd(mb, "valid")

		pieces := wireHostilePieces(r)
		bs := bounds(mb)

		for range tier(6, 12) {
			switch r.intn(6) {
			case 0:
				if len(mb) > 0 {
					decMd(mb[:r.intn(len(mb))], "truncated")
				}
			case 1:
				if len(mb) > 0 {
					c := append([]byte{}, mb...)
					c[r.intn(len(c))] ^= byte(1 << r.intn(8))
					decMd(c, "bitflip")
				}
			case 2:
				if len(mb) > 0 {
					c := append([]byte{}, mb...)
					c[r.intn(len(c))] = byte(r.intn(256))
					decMd(c, "byte")
				}
			case 3, 4:
				decMd(splice(mb, pick(r, bs), pick(r, pieces)), "spliced")
			default:
				c := splice(mb, pick(r, bs), pick(r, pieces))
				decMd(splice(c, pick(r, bounds(c)), pick(r, pieces)), "spliced2")
			}
		}

		// --- resource level ---
		x := genWireRes(r)

		xb, err := x.MarshalVT()
		if err != nil {
			rep.violateKey(len(wj), "wire:marshal-error", fmt.Sprintf("marshal-error: Resource.MarshalVT failed: %v", err), nil)

			continue
		}

		wf.add(fmt.Sprintf("WEncRes %s %s", coqWireRes(x), coqBytes(xb)))
		wj = append(wj, map[string]any{"marshal_resource": i})
		rep.count(fmt.Sprintf("wer:%x", xb), x.Metadata != nil && x.Spec != nil)
		rep.hit("wire-enc-res")

		decRes(xb, "valid")

		for range tier(3, 6) {
			switch r.intn(5) {
			case 0:
				if len(xb) > 0 {
					decRes(xb[:r.intn(len(xb))], "truncated")
				}
			case 1:
				if len(xb) > 0 {
					c := append([]byte{}, xb...)
					c[r.intn(len(c))] ^= byte(1 << r.intn(8))
					decRes(c, "bitflip")
				}
			case 2:
				// the same message twice: metadata and spec are merged field by field
				y := genWireRes(r)
				if yb, err := y.MarshalVT(); err == nil {
					decRes(append(append([]byte{}, xb...), yb...), "merged")
				}
			default:
				decRes(splice(xb, pick(r, bounds(xb)), pick(r, pieces)), "spliced")
			}
		}
	}

	// every hostile piece alone and in front of a fixed valid tail
	tail, _ := (&v1alpha1.Metadata{Namespace: "ns", Labels: map[string]string{"k1": "v1"}}).MarshalVT() //nolint:errcheck

	for _, p := range wireHostilePieces(r) {
		decMd(p, "piece")
		decMd(append(append([]byte{}, p...), tail...), "piece+tail")
		decRes(p, "piece")
	}

	// random bytes (short: most are rejected at once; the interesting ones begin with a plausible tag)
	for range tier(60, 1500) {
		b := make([]byte, r.intn(14))
		for i := range b {
			if r.chance(1, 2) {
				b[i] = byte(r.intn(256))
			} else {
				b[i] = pick(r, []byte{0x0a, 0x12, 0x1a, 0x3a, 0x42, 0x4a, 0x52, 0x5a, 0x08, 0x10, 0, 1, 2, 3, 0x7b, 0x7c, 0x80})
			}
		}

		decMd(b, "random")
		decRes(b, "random")
	}

	// resources of the harness marshaled by the store's protobuf marshaler (the bytes bbolt holds)
	for range tier(25, 400) {
		meta := genC18Meta(r)
		if len(meta.Payload) > 400 {
			continue
		}

		b, err := store.ProtobufMarshaler{}.MarshalResource(meta.build())
		if err != nil {
			continue
		}

		decRes(b, "store-record")
	}

	wf.finishSharded(t, dir, rep, wj, 250)
}
