package harness

import (
	"context"
	"encoding/json"
	"fmt"
	"os"
	"regexp"
	"sort"
	"strings"
	"testing"
	"testing/synctest"

	"go.uber.org/zap"

	cruntime "github.com/cosi-project/runtime/pkg/controller/runtime"
	"github.com/cosi-project/runtime/pkg/controller/runtime/options"
	"github.com/cosi-project/runtime/pkg/resource"
	"github.com/cosi-project/runtime/pkg/resource/kvutils"
	"github.com/cosi-project/runtime/pkg/state"
	"github.com/cosi-project/runtime/pkg/state/impl/inmem"
	"github.com/cosi-project/runtime/pkg/state/impl/namespaced"
)

// C19: mutate-copy-store programs on real resources, against four "stores": a plain map with DeepCopy in/out, the
// inmem state, the state behind the gRPC client/server pair, and reads through the controller runtime's cache.

type heapOp struct {
	Op   string `json:"op"` // new | mut | copy | put | get
	V    int    `json:"v,omitempty"`
	Slot int    `json:"slot,omitempty"`
	Mut  string `json:"mut,omitempty"` // setlabel | dellabel | setannot | delannot | addfin | remfin | phase | ver | owner | spec
	K    string `json:"k,omitempty"`
	X    string `json:"x,omitempty"`
	How  string `json:"how,omitempty"` // copy: deep | struct
	Via  string `json:"via,omitempty"` // label / annotation mutations: "" = Set/Delete, "do" = through the batch API Do()
}

type heapCase struct {
	Flavour string   `json:"flavour"` // plain | inmem | remote | cached
	Prog    []heapOp `json:"prog"`
}

func renderVal(r resource.Resource) string {
	md := r.Metadata()

	kv := func(keys []string, get func(string) (string, bool)) string {
		sort.Strings(keys)

		ps := make([]string, 0, len(keys))
		for _, k := range keys {
			v, _ := get(k)
			ps = append(ps, fmt.Sprintf("(%s, %s)", coqAtom(k), coqAtom(v)))
		}

		return coqList(ps)
	}

	fins := make([]string, 0)
	for _, f := range *md.Finalizers() {
		fins = append(fins, coqAtom(f))
	}

	return fmt.Sprintf("(mkVal %s %s %s %s %s %s %s)",
		kv(md.Labels().Keys(), md.Labels().Get), kv(md.Annotations().Keys(), md.Annotations().Get), coqList(fins),
		coqBool(md.Phase() == resource.PhaseTearingDown), coqVer(md.Version()), coqAtom(md.Owner()), coqAtom(payloadOf(r)))
}

// snapshot ignores version/owner when the store stamps them
func snapKey(r resource.Resource, full bool) string {
	s := renderVal(r)
	if !full {
		md := r.Metadata()
		s = strings.Replace(s, " "+coqVer(md.Version())+" "+coqAtom(md.Owner())+" ", " _ _ ", 1)
	}

	return s
}

func (o heapOp) coq() string {
	switch o.Op {
	case "new":
		return fmt.Sprintf("PNew %s", coqAtom(o.X))
	case "copy":
		return fmt.Sprintf("PCopy %d%%nat", o.V)
	case "put":
		return fmt.Sprintf("PPut %d%%nat %d%%nat", o.Slot, o.V)
	case "get":
		return fmt.Sprintf("PGet %d%%nat", o.Slot)
	}

	var m string

	switch o.Mut {
	case "setlabel":
		m = fmt.Sprintf("MSetLabel %s %s", coqAtom(o.K), coqAtom(o.X))
	case "dellabel":
		m = fmt.Sprintf("MDelLabel %s", coqAtom(o.K))
	case "setannot":
		m = fmt.Sprintf("MSetAnnot %s %s", coqAtom(o.K), coqAtom(o.X))
	case "delannot":
		m = fmt.Sprintf("MDelAnnot %s", coqAtom(o.K))
	case "addfin":
		m = fmt.Sprintf("MAddFin %s", coqAtom(o.X))
	case "remfin":
		m = fmt.Sprintf("MRemFin %s", coqAtom(o.X))
	case "phase":
		m = fmt.Sprintf("MSetPhase %s", coqBool(o.X == "td"))
	case "ver":
		m = fmt.Sprintf("MSetVer (Some %s%%N)", o.X)
	case "owner":
		m = fmt.Sprintf("MSetOwner %s", coqAtom(o.X))
	case "spec":
		m = fmt.Sprintf("MSetSpec %s", coqAtom(o.X))
	}

	return fmt.Sprintf("PMut %d%%nat (%s)", o.V, m)
}

func runHeapCase(t *testing.T, c heapCase) (coq string, problems []string, flags map[string]bool) {
	flags = map[string]bool{}

	synctest.Test(t, func(t *testing.T) {
		ctx, cancel := context.WithCancel(context.Background())
		defer cancel()

		full := c.Flavour == "plain"

		var (
			vars    []resource.Resource
			plain   = map[int]resource.Resource{}
			backing state.State
			front   state.State // where puts go
			reader  state.State // where gets come from
			done    chan error
			slots   = map[int]bool{}
			getN    int
		)

		id := func(slot int) string { return fmt.Sprintf("r%d", slot) }

		switch c.Flavour {
		case "plain":
		case "inmem":
			backing = state.WrapCore(namespaced.NewState(inmem.Build))
			front, reader = backing, backing
		case "remote":
			backing = state.WrapCore(namespaced.NewState(inmem.Build))
			ad, _ := newRemote(backing)
			front = state.WrapCore(ad)
			reader = front
		case "cached":
			backing = state.WrapCore(namespaced.NewState(inmem.Build))
			front = backing

			rt, err := cruntime.NewRuntime(backing, zap.NewNop(), options.WithCachedResource("n1", "T"))
			if err != nil {
				t.Fatal(err)
			}

			if err := rt.RegisterQController(&cacheProbe{st: backing}); err != nil {
				t.Fatal(err)
			}

			done = make(chan error, 1)

			go func() { done <- rt.Run(ctx) }()

			synctest.Wait()

			reader = state.WrapCore(rt.CachedState())
		}

		storeGet := func(slot int) resource.Resource {
			if c.Flavour == "plain" {
				if r, ok := plain[slot]; ok {
					return r.DeepCopy()
				}

				return nil
			}

			synctest.Wait()

			getN++

			// every other read goes through a filtered List (ID query / label query) instead of Get
			if getN%2 == 0 {
				opts := []state.ListOption{state.WithIDQuery(resource.IDRegexpMatch(regexp.MustCompile("^" + id(slot) + "$")))}
				if getN%4 == 0 {
					opts = append(opts, state.WithLabelQuery(resource.LabelExists("nosuchlabel", resource.NotMatches)))
				}

				l, err := reader.List(ctx, resource.NewMetadata("n1", "T", "", resource.VersionUndefined), opts...)
				if err != nil || len(l.Items) != 1 {
					return nil
				}

				return l.Items[0]
			}

			r, err := reader.Get(ctx, resource.NewMetadata("n1", "T", id(slot), resource.VersionUndefined))
			if err != nil {
				return nil
			}

			return r
		}

		snapshot := func(except int) map[string]string {
			out := map[string]string{}

			for i, v := range vars {
				if i != except {
					out[fmt.Sprintf("var %d", i)] = snapKey(v, true)
				}
			}

			for s := range slots {
				if r := storeGet(s); r != nil {
					out[fmt.Sprintf("store slot %d", s)] = snapKey(r, full)
				}
			}

			return out
		}

		var prog []string

		for step, o := range c.Prog {
			switch o.Op {
			case "new":
				vars = append(vars, newRes("n1", "T", fmt.Sprintf("v%d", len(vars)), o.X))
			case "copy":
				if o.V >= len(vars) {
					continue
				}

				src := vars[o.V].(*Res) //nolint:forcetypeassert

				if o.How == "struct" {
					vars = append(vars, &Res{md: src.Metadata().Copy(), spec: src.spec})
					flags["struct_copy"] = true
				} else {
					vars = append(vars, src.DeepCopy())
				}
			case "mut":
				if o.V >= len(vars) {
					continue
				}

				before := snapshot(o.V)
				md := vars[o.V].Metadata()

				switch o.Mut {
				case "setlabel":
					if o.Via == "do" {
						md.Labels().Do(func(tmp kvutils.TempKV) { tmp.Set(o.K, o.X) })
					} else {
						md.Labels().Set(o.K, o.X)
					}
				case "dellabel":
					if o.Via == "do" {
						md.Labels().Do(func(tmp kvutils.TempKV) { tmp.Delete(o.K) })
					} else {
						md.Labels().Delete(o.K)
					}
				case "setannot":
					if o.Via == "do" {
						md.Annotations().Do(func(tmp kvutils.TempKV) { tmp.Set(o.K, o.X) })
					} else {
						md.Annotations().Set(o.K, o.X)
					}
				case "delannot":
					if o.Via == "do" {
						md.Annotations().Do(func(tmp kvutils.TempKV) { tmp.Delete(o.K) })
					} else {
						md.Annotations().Delete(o.K)
					}
				case "addfin":
					md.Finalizers().Add(o.X)
				case "remfin":
					md.Finalizers().Remove(o.X)
				case "phase":
					if o.X == "td" {
						md.SetPhase(resource.PhaseTearingDown)
					} else {
						md.SetPhase(resource.PhaseRunning)
					}
				case "ver":
					v, err := resource.ParseVersion(o.X)
					if err != nil {
						t.Fatal(err)
					}

					md.SetVersion(v)
				case "owner":
					if md.Owner() != "" && md.Owner() != o.X {
						continue // SetOwner refuses; not part of the program
					}

					md.SetOwner(o.X) //nolint:errcheck
				case "spec":
					vars[o.V].(*Res).SetPayload(o.X) //nolint:forcetypeassert
				}

				after := snapshot(o.V)

				for k, b := range before {
					if a, ok := after[k]; !ok || a != b {
						problems = append(problems, fmt.Sprintf("leak:%s: step %d mutates var %d (%s) and %s changed from %s to %s", o.Mut, step, o.V, o.Mut, k, b, after[k]))
					}
				}

				flags["mut:"+o.Mut] = true
			case "put":
				if o.V >= len(vars) {
					continue
				}

				if c.Flavour == "plain" {
					plain[o.Slot] = vars[o.V].DeepCopy()
					slots[o.Slot] = true

					break
				}

				// hand a copy with the right identity and version to the state; the model stores the value of var V
				obj := vars[o.V].(*Res) //nolint:forcetypeassert
				send := &Res{md: resource.NewMetadata("n1", "T", id(o.Slot), resource.VersionUndefined), spec: obj.spec}
				send.md.SetPhase(obj.md.Phase())
				send.md.Finalizers().Set(*obj.md.Finalizers())

				for _, k := range obj.md.Labels().Keys() {
					v, _ := obj.md.Labels().Get(k)
					send.md.Labels().Set(k, v)
				}

				for _, k := range obj.md.Annotations().Keys() {
					v, _ := obj.md.Annotations().Get(k)
					send.md.Annotations().Set(k, v)
				}

				cur, err := backing.Get(ctx, send.Metadata())
				if err == nil {
					send.md.SetVersion(cur.Metadata().Version())
					err = front.Update(ctx, send, state.WithExpectedPhaseAny(), state.WithUpdateOwner(cur.Metadata().Owner()))
				} else {
					err = front.Create(ctx, send)
				}

				if err != nil {
					t.Fatalf("put: %v", err)
				}

				slots[o.Slot] = true

				// the object handed to the state stays in the caller's hands: keep it as a variable too
				vars = append(vars, send)
				prog = append(prog, o.coq(), fmt.Sprintf("PCopy %d%%nat", o.V))

				continue
			case "get":
				r := storeGet(o.Slot)
				if r == nil {
					continue
				}

				vars = append(vars, r)
				flags["get"] = true
			}

			prog = append(prog, o.coq())
		}

		var vs, ss []string

		for _, v := range vars {
			vs = append(vs, renderVal(v))
		}

		sl := make([]int, 0, len(slots))
		for s := range slots {
			sl = append(sl, s)
		}

		sort.Ints(sl)

		for _, s := range sl {
			if r := storeGet(s); r != nil {
				ss = append(ss, fmt.Sprintf("(%d%%nat, %s)", s, renderVal(r)))
			}
		}

		coq = fmt.Sprintf("(%s, %s, %s, %s)", coqBool(full), coqList(prog), coqList(vs), coqList(ss))

		cancel()

		if done != nil {
			<-done
		}

		synctest.Wait()
	})

	return coq, problems, flags
}

func genHeapCase(r *rng) heapCase {
	c := heapCase{Flavour: pick(r, []string{"plain", "plain", "inmem", "inmem", "remote", "cached"})}
	full := c.Flavour == "plain"
	nvars := 0
	keys := []string{"k1", "k2", "k3"}
	vals := []string{"a", "b", "c"}

	add := func(o heapOp) {
		c.Prog = append(c.Prog, o)

		switch o.Op {
		case "new", "copy", "get":
			nvars++
		case "put":
			if !full {
				nvars++
			}
		}
	}

	add(heapOp{Op: "new", X: "s0"})

	for range 6 + r.intn(16) {
		v := r.intn(nvars)

		switch x := r.intn(20); {
		case x < 1:
			add(heapOp{Op: "new", X: pick(r, vals)})
		case x < 11:
			muts := []string{"setlabel", "setlabel", "dellabel", "setannot", "delannot", "addfin", "addfin", "remfin", "phase", "spec"}
			if full {
				muts = append(muts, "ver", "owner")
			}

			m := heapOp{Op: "mut", V: v, Mut: pick(r, muts), K: pick(r, keys), X: pick(r, vals)}

			switch m.Mut {
			case "setlabel", "dellabel", "setannot", "delannot":
				if r.chance(1, 3) {
					m.Via = "do"
				}
			case "addfin", "remfin":
				m.X = pick(r, []string{"f1", "f2", "f3", "f4", "f5", "f6", "f7"})
			case "phase":
				m.X = pick(r, []string{"td", "run"})
			case "ver":
				m.X = fmt.Sprint(1 + r.intn(5))
			}

			add(m)
		case x < 13:
			add(heapOp{Op: "copy", V: v, How: pick(r, []string{"deep", "struct"})})
		case x < 14:
			// grow a finalizer slice (spare capacity appears), copy the object, then extend both copies
			for _, f := range []string{"f1", "f2", "f3", "f4", "f5"}[:2+r.intn(4)] {
				add(heapOp{Op: "mut", V: v, Mut: "addfin", X: f})
			}

			add(heapOp{Op: "copy", V: v, How: pick(r, []string{"deep", "struct"})})
			add(heapOp{Op: "mut", V: v, Mut: "addfin", X: "g1"})
			add(heapOp{Op: "mut", V: nvars - 1, Mut: "addfin", X: "g2"})
			add(heapOp{Op: "mut", V: v, Mut: pick(r, []string{"remfin", "addfin"}), X: pick(r, []string{"f1", "f2", "g3"})})
		case x < 17:
			add(heapOp{Op: "put", Slot: r.intn(2), V: v})
		default:
			add(heapOp{Op: "get", Slot: r.intn(2)})
		}
	}

	return c
}

func TestC19(t *testing.T) {
	dir := outDir(t)
	rep := newReport("C19", "random programs over real resources: new objects, mutations through the metadata/spec API (labels, annotations, finalizers, phase, version, owner, spec), DeepCopy and struct copies (Metadata.Copy), hand-overs to a store and reads from it, for four stores: a map with DeepCopy in/out, the inmem state, the state behind the gRPC client/server pair, reads through the runtime's cache; "+
		"compared with the heap model: final contents of every object the caller holds and of the store; Go-side monitor: after every mutation of one object every other object and every store slot is re-read and must be unchanged; non-trivial = the program copies or reads back and mutates afterwards")

	var cases []heapCase

	if rp := os.Getenv("VERIF_REPLAY"); rp != "" {
		b, err := os.ReadFile(rp)
		if err != nil {
			t.Fatal(err)
		}

		var rf struct {
			Case heapCase `json:"case"`
		}

		if err := json.Unmarshal(b, &rf); err != nil {
			t.Fatal(err)
		}

		cases = append(cases, rf.Case)
	} else {
		r := newRng(seed(), "C19")

		for range tier(500, 10000) {
			cases = append(cases, genHeapCase(r))
		}
	}

	f := newCoqFile("C19_heap_cases", []string{"Heap", "HeapCheck"}, "hcase", "heap_mismatches")

	var jl []any

	for i, c := range cases {
		coq, problems, flags := runHeapCase(t, c)

		key, _ := json.Marshal(c)
		rep.count(string(key), flags["get"] || flags["struct_copy"])
		rep.hit(c.Flavour)

		for fl := range flags {
			rep.hit(fl)
		}

		if i%97 == 3 {
			rep.sample(map[string]any{"case": c})
		}

		for _, p := range problems {
			rep.violateKey(i, strings.SplitN(p, ": ", 2)[0], p, map[string]any{"case": c})
		}

		f.add(coq)
		jl = append(jl, map[string]any{"case": c})
	}

	f.finishSharded(t, dir, rep, jl, 400)

	if os.Getenv("VERIF_REPLAY") == "" {
		typedIsolationPhase(t, rep)
	}

	rep.Assumptions = append(rep.Assumptions, "objects are mutated only through the metadata/spec API (not by writing into the map returned by Raw()); resources delivered inside watch events are observed, never mutated (the property does not list them)")
	rep.write(t, dir)
}
