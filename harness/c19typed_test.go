package harness

import (
	"context"
	"errors"
	"fmt"
	"testing"

	"github.com/cosi-project/runtime/api/v1alpha1"
	"github.com/cosi-project/runtime/pkg/resource"
	"github.com/cosi-project/runtime/pkg/resource/meta"
	"github.com/cosi-project/runtime/pkg/resource/meta/spec"
	"github.com/cosi-project/runtime/pkg/resource/protobuf"
	"github.com/cosi-project/runtime/pkg/resource/typed"
	"github.com/cosi-project/runtime/pkg/state"
	"github.com/cosi-project/runtime/pkg/state/impl/inmem"
	"github.com/cosi-project/runtime/pkg/state/impl/namespaced"
)

// C19 for the resource types that ship with the library and carry structured specs: meta.ResourceDefinition (slices of
// strings and of structs inside the spec) and typed resources over protobuf.ResourceSpec (a message behind a pointer,
// empty or not).  Mutate-and-reread: whatever the caller does to an object it handed to Create / Update, got from Get /
// List or was given in an UpdateWithConflicts callback that then fails, the store's copy stays what it was, and a
// successful callback changes the store only through a committed write (version bumped).

const typedNoteType = resource.Type("Notes.verif.cosi.dev")

type typedNoteSpec = protobuf.ResourceSpec[v1alpha1.NamespaceSpec, *v1alpha1.NamespaceSpec]

type typedNoteExt struct{}

func (typedNoteExt) ResourceDefinition() spec.ResourceDefinitionSpec {
	return spec.ResourceDefinitionSpec{Type: typedNoteType, DefaultNamespace: "default"}
}

type typedNote = typed.Resource[typedNoteSpec, typedNoteExt]

type typedKind struct {
	name   string
	fresh  func() resource.Resource
	render func(resource.Resource) string
	// in-place writes into the object's spec (element writes, not reassignments)
	mutate func(resource.Resource)
}

func typedKinds() []typedKind {
	rdRender := func(r resource.Resource) string {
		return fmt.Sprintf("%+v", *r.(*meta.ResourceDefinition).TypedSpec()) //nolint:forcetypeassert
	}
	rdMutate := func(r resource.Resource) {
		sp := r.(*meta.ResourceDefinition).TypedSpec() //nolint:forcetypeassert
		for i := range sp.PrintColumns {
			sp.PrintColumns[i].Name = "MUT"
			sp.PrintColumns[i].JSONPath = "{.mut}"
		}

		for i := range sp.Aliases {
			sp.Aliases[i] = "mut"
		}

		for i := range sp.AllAliases {
			sp.AllAliases[i] = "mut"
		}
	}

	noteRender := func(r resource.Resource) string {
		return "desc=" + r.(*typedNote).TypedSpec().Value.GetDescription() //nolint:forcetypeassert
	}
	noteMutate := func(r resource.Resource) {
		r.(*typedNote).TypedSpec().Value.Description = "MUT" //nolint:forcetypeassert
	}

	note := func(desc string) func() resource.Resource {
		return func() resource.Resource {
			return typed.NewResource[typedNoteSpec, typedNoteExt](resource.NewMetadata("default", typedNoteType, "a", resource.VersionUndefined),
				protobuf.NewResourceSpec(&v1alpha1.NamespaceSpec{Description: desc}))
		}
	}

	return []typedKind{
		{name: "resource-definition", render: rdRender, mutate: rdMutate, fresh: func() resource.Resource {
			rd, err := meta.NewResourceDefinition(spec.ResourceDefinitionSpec{
				Type: "Widgets.verif.cosi.dev", DefaultNamespace: "default", Aliases: []string{"wdg", "w"},
				PrintColumns: []spec.PrintColumn{{Name: "Size", JSONPath: "{.size}"}, {Name: "Colour", JSONPath: "{.colour}"}},
			})
			if err != nil {
				panic(err)
			}

			return rd
		}},
		{name: "protobuf-spec", render: noteRender, mutate: noteMutate, fresh: note("first")},
		{name: "protobuf-spec-empty", render: noteRender, mutate: noteMutate, fresh: note("")},
	}
}

func runTypedIsolation(t *testing.T, handle string, k typedKind) (problems []string) {
	ctx := context.Background()

	var core state.CoreState = namespaced.NewState(inmem.Build)
	if handle == "inmem" {
		core = inmem.NewState(k.fresh().Metadata().Namespace())
	}

	st := state.WrapCore(core)

	obj := k.fresh()
	want := k.render(obj)

	if err := st.Create(ctx, obj); err != nil {
		t.Fatal(err)
	}

	stored := func() (string, string) {
		r, err := st.Get(ctx, obj.Metadata())
		if err != nil {
			t.Fatal(err)
		}

		return k.render(r), r.Metadata().Version().String()
	}

	check := func(what string, wantVer string) {
		got, ver := stored()
		if got != want || ver != wantVer {
			problems = append(problems, fmt.Sprintf("typed-spec-aliases-store: %s (%s, %s): the store now holds {%s}@%s, it held {%s}@%s", what, k.name, handle, got, ver, want, wantVer))
		}
	}

	// the object handed to Create
	k.mutate(obj)
	check("the caller wrote into the object it had passed to Create", "1")

	// an object returned by Get
	r1, err := st.Get(ctx, obj.Metadata())
	if err != nil {
		t.Fatal(err)
	}

	k.mutate(r1)
	check("the caller wrote into an object returned by Get", "1")

	// objects returned by List
	l, err := st.List(ctx, resource.NewMetadata(obj.Metadata().Namespace(), obj.Metadata().Type(), "", resource.VersionUndefined))
	if err != nil {
		t.Fatal(err)
	}

	for _, it := range l.Items {
		k.mutate(it)
	}

	check("the caller wrote into the objects returned by List", "1")

	// a callback that writes into the object it is given and then fails: nothing may change
	_, err = st.UpdateWithConflicts(ctx, obj.Metadata(), func(r resource.Resource) error {
		k.mutate(r)

		return errors.New("changed my mind")
	})
	if err == nil {
		problems = append(problems, "typed-spec-aliases-store: a failing UpdateWithConflicts callback reported success")
	}

	check("a failing UpdateWithConflicts callback wrote into the object it was given", "1")

	// a callback that succeeds: the change is committed as a write (version bumped), and the caller's later writes into
	// the returned object stay private
	ret, err := st.UpdateWithConflicts(ctx, obj.Metadata(), func(r resource.Resource) error {
		k.mutate(r)

		return nil
	})
	if err != nil {
		t.Fatal(err)
	}

	mutated := k.fresh()
	k.mutate(mutated)
	want = k.render(mutated)

	check("a successful UpdateWithConflicts callback", "2")

	fresh2 := k.fresh()
	if _, ok := ret.(*typedNote); ok {
		ret.(*typedNote).TypedSpec().Value.Description = "later" //nolint:forcetypeassert
	} else {
		_ = fresh2
		sp := ret.(*meta.ResourceDefinition).TypedSpec() //nolint:forcetypeassert
		for i := range sp.PrintColumns {
			sp.PrintColumns[i].Name = "later"
		}
	}

	check("the caller wrote into the object returned by UpdateWithConflicts", "2")

	return problems
}

func typedIsolationPhase(t *testing.T, rep *Report) {
	for i, k := range typedKinds() {
		for _, h := range []string{"inmem", "namespaced"} {
			for _, p := range runTypedIsolation(t, h, k) {
				rep.violateKey(i, "typed-spec-aliases-store:"+k.name, p, map[string]any{"typed_isolation": k.name, "handle": h})
			}

			rep.count("typed:"+k.name+":"+h, true)
			rep.hit("typed:" + k.name)
		}
	}
}
