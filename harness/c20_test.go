package harness

import (
	"bytes"
	"encoding/json"
	"fmt"
	"os"
	"sort"
	"testing"

	"github.com/ProtonMail/gopenpgp/v2/crypto"
	"github.com/siderolabs/gen/xerrors"

	"github.com/cosi-project/runtime/api/key_storage"
	"github.com/cosi-project/runtime/pkg/keystorage"
)

// C20: the real key storage with real OpenPGP key pairs; corruptions are applied to the serialized form.

type ksOp struct {
	Op   string `json:"op"` // init | add | delete | get | reload
	Slot string `json:"slot,omitempty"`
	KP   int    `json:"kp"`            // key pair used as public key (init/add) or private key (delete/get); -1 = empty string
	Old  string `json:"old,omitempty"` // add: existing slot
	OldK int    `json:"oldk,omitempty"`
	Bad  bool   `json:"bad,omitempty"` // init: master key of the wrong length
}

type ksTamper struct {
	Kind string `json:"kind"` // none | blob-garbage | blob-empty | remove | add-empty | add-copy | rename | shift | hmac | hmac-empty | version | alg
	A    string `json:"a,omitempty"`
	B    string `json:"b,omitempty"`
}

type ksCase struct {
	Ops    []ksOp   `json:"ops"`
	Tamper ksTamper `json:"tamper"`
	After  []ksOp   `json:"after,omitempty"`
}

type ksKeys struct{ pub, priv []string }

func genKeyPairs(t *testing.T, n int) ksKeys {
	var k ksKeys

	for i := range n {
		key, err := crypto.GenerateKey(fmt.Sprintf("k%d", i), fmt.Sprintf("k%d@example.org", i), "x25519", 0)
		if err != nil {
			t.Fatal(err)
		}

		priv, err := key.Armor()
		if err != nil {
			t.Fatal(err)
		}

		pub, err := key.GetArmoredPublicKey()
		if err != nil {
			t.Fatal(err)
		}

		k.pub = append(k.pub, pub)
		k.priv = append(k.priv, priv)
	}

	return k
}

func ksErrCoq(err error) string {
	switch {
	case err == nil:
		return "OOk"
	case xerrors.TagIs[keystorage.NotInitializedTag](err):
		return "(OErr ENotInitialized)"
	case xerrors.TagIs[keystorage.AlreadyInitializedTag](err):
		return "(OErr EAlreadyInitialized)"
	case xerrors.TagIs[keystorage.SlotAlreadyExists](err):
		return "(OErr ESlotExists)"
	case xerrors.TagIs[keystorage.SlotNotFoundTag](err):
		return "(OErr ESlotNotFound)"
	case xerrors.TagIs[keystorage.VersionMismatchTag](err):
		return "(OErr EVersionMismatch)"
	case xerrors.TagIs[keystorage.HMACMismatchTag](err):
		return "(OErr EHMACMismatch)"
	case xerrors.TagIs[keystorage.AlgorithmMismatchTag](err):
		return "(OErr EAlgorithmMismatch)"
	case xerrors.TagIs[keystorage.KeyDecryptionFailureTag](err):
		return "(OErr EDecrypt)"
	case xerrors.TagIs[keystorage.LastKeyTag](err):
		return "(OErr ELastKey)"
	}

	return "OErrOther"
}

func coqKP(i int) string {
	if i < 0 {
		return "None"
	}

	return fmt.Sprintf("(Some %d%%N)", 100+i)
}

// runKSCase returns the Coq case, Go-side property problems and flags.
func runKSCase(t *testing.T, c ksCase, keys ksKeys, master []byte) (coq string, problems []string, flags map[string]bool) {
	flags = map[string]bool{}
	ks := &keystorage.KeyStorage{}

	str := func(arr []string, i int) string {
		if i < 0 {
			return ""
		}

		return arr[i]
	}

	sealed := map[string]int{} // live slot -> key pair it was sealed for (ghost)

	var heldData, heldCopy [][]byte // results of MarshalBinary the caller still holds, and what they were

	exec := func(ops []ksOp, tampered bool) []string {
		var out []string

		for _, o := range ops {
			var (
				err error
				obs string
			)

			switch o.Op {
			case "init":
				mk := master
				if o.Bad {
					mk = master[:31]
				}

				err = ks.Initialize(mk, o.Slot, str(keys.pub, o.KP))
				obs = ksErrCoq(err)

				if err == nil {
					sealed[o.Slot] = o.KP
				}

				out = append(out, fmt.Sprintf("(KInit N %s %s %s 1, %s)", coqBytes(mk), coqAtom(o.Slot), coqKP(o.KP), obs))
			case "add":
				err = ks.AddKeySlot(o.Slot, str(keys.pub, o.KP), o.Old, str(keys.priv, o.OldK))
				obs = ksErrCoq(err)

				if err == nil {
					sealed[o.Slot] = o.KP
				}

				out = append(out, fmt.Sprintf("(KAdd N %s %s 2 %s %s, %s)", coqAtom(o.Slot), coqKP(o.KP), coqAtom(o.Old), coqKP(o.OldK), obs))
			case "addbad":
				// an unusable public key: the call must fail and leave the storage byte-for-byte unchanged
				before, _ := ks.MarshalBinary() //nolint:errcheck
				err = ks.AddKeySlot(o.Slot, "-----BEGIN PGP PUBLIC KEY BLOCK-----\n\nnot a key\n-----END PGP PUBLIC KEY BLOCK-----", o.Old, str(keys.priv, o.OldK))
				after, _ := ks.MarshalBinary() //nolint:errcheck

				if err == nil {
					problems = append(problems, "guard: AddKeySlot accepted an unusable public key")
				} else if canonKS(before) != canonKS(after) {
					problems = append(problems, fmt.Sprintf("failed-op-changed-state: AddKeySlot(%q) failed (%v) but the serialized storage changed", o.Slot, err))
				}

				flags["bad_public_key"] = true

				continue
			case "delete":
				_, wasLive := sealed[o.Slot]
				nLive := len(sealed)
				err = ks.DeleteKeySlot(o.Slot, str(keys.priv, o.KP))
				obs = ksErrCoq(err)

				if err == nil {
					if nLive <= 1 && !tampered {
						problems = append(problems, "guard: the last slot was deleted")
					}

					delete(sealed, o.Slot)
					flags["deleted"] = true
				}

				_ = wasLive

				out = append(out, fmt.Sprintf("(KDelete N %s %s, %s)", coqAtom(o.Slot), coqKP(o.KP), obs))
			case "get":
				var k []byte

				k, err = ks.GetMasterKey(o.Slot, str(keys.priv, o.KP))
				obs = ksErrCoq(err)

				if err == nil {
					obs = "(OKey " + coqBool(bytes.Equal(k, master)) + ")"

					if !tampered {
						if kp, live := sealed[o.Slot]; !live || kp != o.KP {
							problems = append(problems, fmt.Sprintf("recovery: slot %q (live=%v) gave the master key to key pair %d", o.Slot, live, o.KP))
						}

						if !bytes.Equal(k, master) {
							problems = append(problems, "recovery: a live slot returned a key that is not the original master key")
						}
					}
				} else if !tampered {
					if kp, live := sealed[o.Slot]; live && kp == o.KP {
						problems = append(problems, fmt.Sprintf("recovery: live slot %q with its own key pair failed: %v", o.Slot, err))
					}
				}

				out = append(out, fmt.Sprintf("(KGet N %s %s, %s)", coqAtom(o.Slot), coqKP(o.KP), obs))
			case "reload":
				var data []byte

				data, err = ks.MarshalBinary()
				if err == nil {
					// the caller keeps what MarshalBinary returned (a persisted snapshot): later operations on the storage,
					// later marshals included, must not change it
					heldData = append(heldData, data)
					heldCopy = append(heldCopy, bytes.Clone(data))

					if again, err2 := ks.MarshalBinary(); err2 == nil {
						heldData = append(heldData, again)
						heldCopy = append(heldCopy, bytes.Clone(again))
					}

					fresh := &keystorage.KeyStorage{}
					err = fresh.UnmarshalBinary(data)

					if err == nil {
						ks = fresh
					}
				}

				out = append(out, fmt.Sprintf("(KReload N, %s)", ksErrCoq(err)))
				flags["reloaded"] = true
			}

			if err != nil {
				flags["op_error"] = true
			}

			for i := range heldData {
				if !bytes.Equal(heldData[i], heldCopy[i]) {
					problems = append(problems, fmt.Sprintf("marshal-result-overwritten: the bytes returned by an earlier MarshalBinary changed after operation %q (snapshot %d)", o.Op, i))
					heldCopy[i] = bytes.Clone(heldData[i])
				}
			}
		}

		return out
	}

	pre := exec(c.Ops, false)

	// ---- corruption of the serialized form ----
	tam := "TNone"
	changed := false

	var shiftedIDs []string

	if c.Tamper.Kind != "none" && c.Tamper.Kind != "" {
		data, err := ks.MarshalBinary()
		if err != nil {
			t.Fatal(err)
		}

		var raw key_storage.Storage
		if err := raw.UnmarshalVT(data); err != nil {
			t.Fatal(err)
		}

		ids := make([]string, 0, len(raw.KeySlots))
		for id := range raw.KeySlots {
			ids = append(ids, id)
		}

		sort.Strings(ids)

		switch c.Tamper.Kind {
		case "blob-garbage":
			if s := raw.KeySlots[c.Tamper.A]; s != nil {
				b := append([]byte(nil), s.EncryptedKey...)
				if len(b) == 0 {
					b = []byte{9}
				} else {
					b[len(b)/2] ^= 0x20
				}
				s.EncryptedKey = b
				tam = fmt.Sprintf("TBlob %s [9; 9; 9]", coqAtom(c.Tamper.A))
				changed = true
			}
		case "blob-empty":
			if s := raw.KeySlots[c.Tamper.A]; s != nil {
				s.EncryptedKey = nil
				tam = fmt.Sprintf("TBlob %s []", coqAtom(c.Tamper.A))
				changed = true
			}
		case "remove":
			if raw.KeySlots[c.Tamper.A] != nil {
				delete(raw.KeySlots, c.Tamper.A)
				tam = fmt.Sprintf("TRemove %s", coqAtom(c.Tamper.A))
				changed = true
			}
		case "add-empty":
			if raw.KeySlots != nil && raw.KeySlots[c.Tamper.A] == nil {
				raw.KeySlots[c.Tamper.A] = &key_storage.KeySlot{Algorithm: key_storage.Algorithm_PGP_AES_GCM_256}
				tam = fmt.Sprintf("TAdd %s 1 []", coqAtom(c.Tamper.A))
				changed = true
			}
		case "add-copy":
			if raw.KeySlots != nil && raw.KeySlots[c.Tamper.A] == nil && raw.KeySlots[c.Tamper.B] != nil {
				raw.KeySlots[c.Tamper.A] = &key_storage.KeySlot{Algorithm: key_storage.Algorithm_PGP_AES_GCM_256, EncryptedKey: raw.KeySlots[c.Tamper.B].EncryptedKey}
				tam = fmt.Sprintf("TAddCopy %s %s", coqAtom(c.Tamper.A), coqAtom(c.Tamper.B))
				changed = true
			}
		case "rename":
			if s := raw.KeySlots[c.Tamper.A]; s != nil && raw.KeySlots[c.Tamper.B] == nil {
				// only a rename that keeps the slot's rank keeps the hashed concatenation
				delete(raw.KeySlots, c.Tamper.A)
				raw.KeySlots[c.Tamper.B] = s
				tam = fmt.Sprintf("TRename %s %s", coqAtom(c.Tamper.A), coqAtom(c.Tamper.B))
				changed = true
			}
		case "shift":
			for i := 0; i+1 < len(ids); i++ {
				if ids[i] == c.Tamper.A {
					a, b := raw.KeySlots[ids[i]], raw.KeySlots[ids[i+1]]
					n := len(a.EncryptedKey)
					if n == 0 {
						continue
					}

					b.EncryptedKey = append([]byte{a.EncryptedKey[n-1]}, b.EncryptedKey...)
					a.EncryptedKey = a.EncryptedKey[:n-1]
					tam = fmt.Sprintf("TShift %s %s", coqAtom(ids[i]), coqAtom(ids[i+1]))
					changed = true
					shiftedIDs = []string{ids[i], ids[i+1]}
				}
			}
		case "hmac":
			if len(raw.KeysHmacHash) > 0 {
				raw.KeysHmacHash = append([]byte(nil), raw.KeysHmacHash...)
				raw.KeysHmacHash[0] ^= 1
				tam = "THmacFlip"
				changed = true
			}
		case "hmac-empty":
			if len(raw.KeysHmacHash) > 0 {
				raw.KeysHmacHash = nil
				tam = "THmac []"
				changed = true
			}
		case "version":
			raw.StorageVersion = 2
			tam = "TVer 2"
			changed = true
		case "alg":
			if s := raw.KeySlots[c.Tamper.A]; s != nil {
				s.Algorithm = key_storage.Algorithm_UNKNOWN
				tam = fmt.Sprintf("TAlg %s 0", coqAtom(c.Tamper.A))
				changed = true
			}
		}

		if changed {
			data, err = raw.MarshalVT()
			if err != nil {
				t.Fatal(err)
			}

			fresh := &keystorage.KeyStorage{}
			if err := fresh.UnmarshalBinary(data); err != nil {
				// rejected at load time: detected; nothing further to probe
				if c.Tamper.Kind != "version" {
					problems = append(problems, "load: "+err.Error())
				}

				tam = "TNone"
				changed = false
				flags["rejected_at_load"] = true
			} else {
				ks = fresh
				flags["tamper:"+c.Tamper.Kind] = true
			}
		}
	}

	// ---- probes: retrieval through every slot that was live (and the tampered ids) with its own key pair ----
	var probes []string

	pids := map[string]int{}
	for id, kp := range sealed {
		pids[id] = kp
	}

	if c.Tamper.B != "" && c.Tamper.Kind == "rename" {
		if kp, ok := sealed[c.Tamper.A]; ok {
			pids[c.Tamper.B] = kp
		}
	}

	if c.Tamper.Kind == "add-copy" {
		if kp, ok := sealed[c.Tamper.B]; ok {
			pids[c.Tamper.A] = kp
		}
	}

	if c.Tamper.Kind == "add-empty" {
		pids[c.Tamper.A] = 0
	}

	shifted := map[string]bool{}

	for _, id := range sortedKeys(pids) {
		k, err := ks.GetMasterKey(id, keys.priv[pids[id]])
		ok := err == nil && bytes.Equal(k, master)

		if err == nil && !bytes.Equal(k, master) {
			problems = append(problems, "recovery: retrieval returned a key that is not the original master key")
		}

		// an altered algorithm field is outside the property's list: it must (and does) fail through that slot only
		if changed && err == nil && !(c.Tamper.Kind == "alg" && id != c.Tamper.A) {
			problems = append(problems, fmt.Sprintf("tamper-undetected:%s: after the corruption %+v retrieval through slot %q still succeeds", c.Tamper.Kind, c.Tamper, id))
		}

		// whether the OpenPGP armor reader tolerates a byte cut from the end / glued to the front of a blob is
		// library behaviour the model does not predict: the two blobs involved in a boundary shift are not compared
		for _, sid := range shiftedIDs {
			shifted[sid] = true
		}

		if shifted[id] {
			continue
		}

		probes = append(probes, fmt.Sprintf("(%s, %d%%N, %s)", coqAtom(id), 100+pids[id], coqBool(ok)))
	}

	post := exec(c.After, changed)

	if changed && len(c.After) > 0 {
		// the last-slot guard must still protect the last GENUINE slot
		live := 0
		for id, kp := range sealed {
			if k, err := ks.GetMasterKey(id, keys.priv[kp]); err == nil && bytes.Equal(k, master) {
				live++
			}
		}

		if live == 0 && flags["deleted"] && c.Tamper.Kind == "add-empty" {
			problems = append(problems, "tamper-undetected:last-slot-guard: after a phantom slot was added behind the API every genuine slot could be deleted; no key pair recovers the master key any more")
		}
	}

	coq = fmt.Sprintf("(%s, %s, %s, %s, %s)", coqBytes(master), coqList(pre), tam, coqList(probes), coqList(post))

	return coq, problems, flags
}

func genKSCase(r *rng) ksCase {
	slots := []string{"s1", "s2", "s3", "s4", "s5"}

	// slot ids are opaque byte strings: ids that differ only in surrounding whitespace or case name different slots
	variants := r.chance(1, 5)
	if variants {
		slots = []string{"s1", " s1", "s1 ", "S1", "s2", " s2"}
	}

	var (
		c    ksCase
		live = map[string]int{}
	)

	anySlot := func() string { return pick(r, slots) }

	liveSlot := func() (string, int) {
		ids := sortedKeys(live)
		if len(ids) == 0 {
			return anySlot(), r.intn(4)
		}

		id := pick(r, ids)

		return id, live[id]
	}

	if r.chance(1, 10) {
		c.Ops = append(c.Ops, ksOp{Op: pick(r, []string{"get", "delete", "add", "reload"}), Slot: anySlot(), KP: r.intn(4), Old: anySlot(), OldK: r.intn(4)})
	}

	first := anySlot()
	kp := r.intn(4)

	if r.chance(1, 8) {
		c.Ops = append(c.Ops, ksOp{Op: "init", Slot: pick(r, []string{"", first}), KP: pick(r, []int{-1, kp}), Bad: r.chance(1, 2)})
	}

	c.Ops = append(c.Ops, ksOp{Op: "init", Slot: first, KP: kp})
	live[first] = kp

	for range 2 + r.intn(10) {
		switch x := r.intn(20); {
		case x < 7:
			o := ksOp{Op: "add", Slot: anySlot(), KP: r.intn(4)}
			o.Old, o.OldK = liveSlot()

			if r.chance(1, 6) {
				o.OldK = r.intn(4) // possibly the wrong private key
			}

			if r.chance(1, 10) {
				o.Old = anySlot()
			}

			if _, exists := live[o.Slot]; !exists && live[o.Old] == o.OldK {
				if _, ok := live[o.Old]; ok {
					live[o.Slot] = o.KP
				}
			}

			c.Ops = append(c.Ops, o)
		case x < 11:
			o := ksOp{Op: "delete"}
			o.Slot, o.KP = liveSlot()

			if r.chance(1, 5) {
				o.KP = r.intn(4)
			}

			if r.chance(1, 8) {
				o.Slot = anySlot()
			}

			if kp, ok := live[o.Slot]; ok && kp == o.KP && len(live) > 1 {
				delete(live, o.Slot)
			}

			c.Ops = append(c.Ops, o)
		case x < 16:
			o := ksOp{Op: "get"}
			o.Slot, o.KP = liveSlot()

			if r.chance(1, 4) {
				o.KP = pick(r, []int{-1, r.intn(4)})
			}

			if r.chance(1, 6) {
				o.Slot = pick(r, []string{"", anySlot()})
			}

			c.Ops = append(c.Ops, o)
		case x < 17:
			c.Ops = append(c.Ops, ksOp{Op: "reload"})
		case x < 18:
			o := ksOp{Op: "addbad", Slot: anySlot()}
			o.Old, o.OldK = liveSlot()
			c.Ops = append(c.Ops, o)
		default:
			c.Ops = append(c.Ops, ksOp{Op: "init", Slot: anySlot(), KP: r.intn(4)})
		}
	}

	ids := sortedKeys(live)
	c.Tamper.Kind = pick(r, []string{"none", "none", "blob-garbage", "blob-empty", "remove", "add-empty", "add-copy", "rename", "shift", "hmac", "hmac-empty", "version", "alg"})
	if variants {
		c.Tamper.Kind = pick(r, []string{"none", "none", "none", "blob-garbage", "hmac"}) // the others are written for the ranks of s1..s5
	}

	c.Tamper.A = pick(r, ids)

	switch c.Tamper.Kind {
	case "add-empty", "add-copy":
		c.Tamper.A, c.Tamper.B = pick(r, []string{"s0", "s6", "s25", "s35"}), pick(r, ids)
	case "rename":
		c.Tamper.B = c.Tamper.A + pick(r, []string{"0", "x"}) // keeps the rank among s1..s5 unless a longer id follows
	}

	for range r.intn(4) {
		if c.Tamper.Kind == "shift" {
			break // what the armor reader makes of the two shifted blobs is not modelled
		}

		o := ksOp{Op: pick(r, []string{"get", "delete", "add"})}
		o.Slot, o.KP = liveSlot()
		o.Old, o.OldK = liveSlot()

		if o.Op == "add" {
			o.Slot, o.KP = anySlot(), r.intn(4)
		}

		c.After = append(c.After, o)
	}

	return c
}

func ksKey(problem string) string {
	for _, k := range []string{"tamper-undetected:add-empty", "tamper-undetected:rename", "tamper-undetected:shift", "tamper-undetected:last-slot-guard"} {
		if len(problem) >= len(k) && problem[:len(k)] == k {
			return k
		}
	}

	for i := range len(problem) {
		if problem[i] == ' ' {
			return problem[:i]
		}
	}

	return problem
}

func TestC20(t *testing.T) {
	dir := outDir(t)
	rep := newReport("C20", "the real KeyStorage with four real x25519 OpenPGP key pairs and a random master key: random sequences of initialise / add-slot / delete-slot / get / marshal+unmarshal with right, wrong and empty ids and keys, compared op by op (success, error tag, 'is the original master key') with the model; "+
		"then one corruption of the serialized form (blob bit-flip, blob emptied, slot removed, phantom slot with empty or copied blob, slot renamed, blob boundary shifted, tag altered/emptied, version, algorithm), retrieval through every slot with its own key pair, and further API calls; "+
		"then every slot of a 2..4-slot storage deleted by concurrent callers, the observed results replayed on the model in a witness order; Go-side monitors: live slots recover the original key, nobody else does, guards hold (also under concurrent deletion), any retrieval that still succeeds after a corruption is a violation; non-trivial = an error, deletion, reload or corruption occurred")

	var cases []ksCase

	if rp := os.Getenv("VERIF_REPLAY"); rp != "" {
		b, err := os.ReadFile(rp)
		if err != nil {
			t.Fatal(err)
		}

		var rf struct {
			Case ksCase `json:"case"`
		}

		if err := json.Unmarshal(b, &rf); err != nil {
			t.Fatal(err)
		}

		cases = append(cases, rf.Case)
	} else {
		r := newRng(seed(), "C20")

		// corpus: finding F8
		two := []ksOp{{Op: "init", Slot: "s1", KP: 0}, {Op: "add", Slot: "s3", KP: 1, Old: "s1", OldK: 0}}
		cases = append(cases,
			ksCase{Ops: two[:1], Tamper: ksTamper{Kind: "add-empty", A: "s2"}, After: []ksOp{{Op: "delete", Slot: "s1", KP: 0}}},
			ksCase{Ops: two, Tamper: ksTamper{Kind: "rename", A: "s1", B: "s2"}},
			ksCase{Ops: two, Tamper: ksTamper{Kind: "shift", A: "s1"}},
			ksCase{Ops: append(append([]ksOp(nil), two...), ksOp{Op: "add", Slot: "s5", KP: 2, Old: "s3", OldK: 1}), Tamper: ksTamper{Kind: "shift", A: "s1"}},
		)

		for range tier(250, 5000) {
			cases = append(cases, genKSCase(r))
		}
	}

	keys := genKeyPairs(t, 4)
	master := []byte("0123456789abcdef0123456789ABCDEF")

	f := newCoqFile("C20_keystorage_cases", []string{"KeyStorage", "KeyStorageProofs", "KeyStorageCheck"}, "kcase", "ks_mismatches")

	var jl []any

	for i, c := range cases {
		coq, problems, flags := runKSCase(t, c, keys, master)

		key, _ := json.Marshal(c)
		rep.count(string(key), len(flags) >= 1)
		rep.hit("tamper:" + c.Tamper.Kind)

		for fl := range flags {
			rep.hit(fl)
		}

		if len(flags) >= 3 {
			rep.sample(map[string]any{"case": c})
		}

		for _, p := range problems {
			rep.violateKey(i, ksKey(p), p, map[string]any{"case": c})
		}

		f.add(coq)
		jl = append(jl, map[string]any{"case": c})
	}

	// ---- concurrent callers: every slot of a 2..4-slot storage deleted (and read) at once. The calls must behave like
	// SOME sequence of the model's operations: the observed results are replayed on the model in a witness order
	// (successful deletions in completion order, then the refused ones), and the guards are monitored directly ----
	if os.Getenv("VERIF_REPLAY") == "" {
		for it := range tier(24, 400) {
			n := 2 + it%3
			ks := &keystorage.KeyStorage{}

			var pre []string

			slot := func(i int) string { return fmt.Sprintf("s%d", i+1) }

			if err := ks.Initialize(master, slot(0), keys.pub[0]); err != nil {
				t.Fatal(err)
			}

			pre = append(pre, fmt.Sprintf("(KInit N %s %s %s 1, %s)", coqBytes(master), coqAtom(slot(0)), coqKP(0), ksErrCoq(nil)))

			for i := 1; i < n; i++ {
				if err := ks.AddKeySlot(slot(i), keys.pub[i], slot(0), keys.priv[0]); err != nil {
					t.Fatal(err)
				}

				pre = append(pre, fmt.Sprintf("(KAdd N %s %s 2 %s %s, %s)", coqAtom(slot(i)), coqKP(i), coqAtom(slot(0)), coqKP(0), ksErrCoq(nil)))
			}

			type done struct {
				i   int
				err error
			}

			start := make(chan struct{})
			res := make(chan done, n)

			for i := range n {
				go func() {
					<-start

					res <- done{i, ks.DeleteKeySlot(slot(i), keys.priv[i])}
				}()
			}

			close(start)

			var okOps, failOps []string

			deleted := map[int]bool{}

			for range n {
				d := <-res
				row := fmt.Sprintf("(KDelete N %s %s, %s)", coqAtom(slot(d.i)), coqKP(d.i), ksErrCoq(d.err))

				if d.err == nil {
					okOps = append(okOps, row)
					deleted[d.i] = true
				} else {
					failOps = append(failOps, row)
				}
			}

			replay := map[string]any{"concurrent_deletes": n, "deleted": len(deleted)}
			rep.count(fmt.Sprint("conc", it), true)
			rep.hit("concurrent_deletes")

			if len(deleted) >= n {
				rep.violateKey(len(cases)+it, "guard:concurrent-last-slot", fmt.Sprintf("guard: %d concurrent DeleteKeySlot calls on a %d-slot storage all succeeded: the last slot was deleted and no key pair recovers the master key", n, n), replay)
			}

			for i := range n {
				k, err := ks.GetMasterKey(slot(i), keys.priv[i])
				if deleted[i] && err == nil {
					rep.violateKey(len(cases)+it, "recovery:concurrent-deleted-slot", "recovery: a slot whose deletion was acknowledged still returns the master key", replay)
				}

				if !deleted[i] && (err != nil || !bytes.Equal(k, master)) {
					rep.violateKey(len(cases)+it, "recovery:concurrent-live-slot", fmt.Sprintf("recovery: after concurrent deletions the surviving slot %q does not recover the master key: %v", slot(i), err), replay)
				}
			}

			f.add(fmt.Sprintf("(%s, %s, TNone, [], [])", coqBytes(master), coqList(append(append(pre, okOps...), failOps...))))
			jl = append(jl, replay)
		}
	}

	f.finishSharded(t, dir, rep, jl, 400)
	rep.Assumptions = append(rep.Assumptions, "concurrent callers are sampled (free-running goroutines), not enumerated: the model's operations are atomic, the storage's mutex is what makes the code's so", "OpenPGP encryption/decryption and HMAC-SHA256 behave as their idealised specification (trusted libraries); protobuf (de)serialisation of the storage is C18's subject")
	rep.write(t, dir)
}

// canonKS renders a serialized storage independently of map iteration order.
func canonKS(data []byte) string {
	var raw key_storage.Storage
	if err := raw.UnmarshalVT(data); err != nil {
		return "unparsable: " + err.Error()
	}

	ids := make([]string, 0, len(raw.KeySlots))
	for id := range raw.KeySlots {
		ids = append(ids, id)
	}

	sort.Strings(ids)

	out := fmt.Sprintf("v=%d hmac=%x", raw.StorageVersion, raw.KeysHmacHash)
	for _, id := range ids {
		out += fmt.Sprintf(" %s:%d:%x", id, raw.KeySlots[id].Algorithm, raw.KeySlots[id].EncryptedKey)
	}

	return out
}
