// Package harness drives the real cosi-project/runtime code and writes observations as
// Coq source files (checked against the Gallina models by coqc) plus a JSON report.
package harness

import (
	"encoding/json"
	"fmt"
	"github.com/siderolabs/gen/optional"
	"hash/fnv"
	"os"
	"path/filepath"
	"sort"
	"strconv"
	"strings"
	"testing"
)

// ---- configuration ---------------------------------------------------------------

func envInt(name string, def int64) int64 {
	if v := os.Getenv(name); v != "" {
		if n, err := strconv.ParseInt(v, 10, 64); err == nil {
			return n
		}
	}

	return def
}

func seed() int64 { return envInt("VERIF_SEED", 1) }

func thorough() bool { return os.Getenv("VERIF_TIER") == "thorough" }

func outDir(t *testing.T) string {
	d := os.Getenv("VERIF_OUT")
	if d == "" {
		d = t.TempDir()
	}

	if err := os.MkdirAll(d, 0o755); err != nil {
		t.Fatal(err)
	}

	return d
}

// tier picks the quick or thorough budget.
func tier(quick, deep int) int {
	if thorough() {
		return deep
	}

	return quick
}

// ---- deterministic PRNG (splitmix64) ----------------------------------------------

type rng struct{ s uint64 }

func newRng(seed int64, stream string) *rng {
	h := fnv.New64a()
	h.Write([]byte(stream))

	return &rng{s: uint64(seed)*0x9E3779B97F4A7C15 ^ h.Sum64()}
}

func (r *rng) next() uint64 {
	r.s += 0x9E3779B97F4A7C15
	z := r.s
	z = (z ^ (z >> 30)) * 0xBF58476D1CE4E5B9
	z = (z ^ (z >> 27)) * 0x94D049BB133111EB

	return z ^ (z >> 31)
}

func (r *rng) intn(n int) int { return int(r.next() % uint64(n)) }

func (r *rng) chance(num, den int) bool { return r.intn(den) < num }

func pick[T any](r *rng, xs []T) T { return xs[r.intn(len(xs))] }

// ---- report -----------------------------------------------------------------------

// Violation is a property failure found by a Go-side monitor on an implementation trace.
type Violation struct {
	Case   int    `json:"case"`
	Key    string `json:"key,omitempty"` // stable identifier of the failing input / call site (matches known_findings.json)
	What   string `json:"what"`
	Replay any    `json:"replay"`
}

// Report is what a driver hands to bin/check.
type Report struct {
	Property           string         `json:"property"`
	Evaluations        int            `json:"evaluations"`
	DistinctNontrivial int            `json:"distinct_nontrivial"`
	Rule               string         `json:"rule"`
	Exhaustive         bool           `json:"exhaustive"`
	Samples            []any          `json:"samples"`
	Branches           map[string]int `json:"branches"`
	Violations         []Violation    `json:"violations"`
	CoqFiles           []string       `json:"coq_files"`
	CaseFiles          []string       `json:"case_files"`
	Notes              []string       `json:"notes"`
	Assumptions        []string       `json:"assumptions"`
	// CorrIsSpec: the model the observations are compared with is the property's specification itself, so a
	// disagreeing case is a concrete input on which the property fails (not merely a broken correspondence)
	CorrIsSpec bool `json:"corr_is_spec"`

	distinct map[uint64]struct{}
}

func newReport(prop, rule string) *Report {
	return &Report{Property: prop, Rule: rule, Branches: map[string]int{}, distinct: map[uint64]struct{}{}}
}

// count records one evaluated case; nontrivial ones are counted once per distinct key.
func (r *Report) count(key string, nontrivial bool) {
	r.Evaluations++

	if nontrivial {
		h := fnv.New64a()
		h.Write([]byte(key))
		r.distinct[h.Sum64()] = struct{}{}
		r.DistinctNontrivial = len(r.distinct)
	}
}

func (r *Report) hit(branch string) { r.Branches[branch]++ }

func (r *Report) sample(s any) {
	if len(r.Samples) < 5 {
		r.Samples = append(r.Samples, s)
	}
}

func (r *Report) violate(c int, what string, replay any) {
	if len(r.Violations) < 20 {
		r.Violations = append(r.Violations, Violation{Case: c, What: what, Replay: replay})
	}
}

func (r *Report) violateKey(c int, key, what string, replay any) {
	for _, v := range r.Violations {
		if v.Key == key {
			return
		}
	}

	r.Violations = append(r.Violations, Violation{Case: c, Key: key, What: what, Replay: replay})
}

func (r *Report) write(t *testing.T, dir string) {
	b, err := json.MarshalIndent(r, "", " ")
	if err != nil {
		t.Fatal(err)
	}

	if err := os.WriteFile(filepath.Join(dir, r.Property+"_report.json"), b, 0o644); err != nil {
		t.Fatal(err)
	}
}

// ---- Coq source printers ----------------------------------------------------------

func coqZ(n int64) string {
	if n < 0 {
		return fmt.Sprintf("(%d)%%Z", n)
	}

	return fmt.Sprintf("%d%%Z", n)
}

func coqN(n uint64) string { return fmt.Sprintf("%d%%N", n) }

func coqBool(b bool) string {
	if b {
		return "true"
	}

	return "false"
}

func coqList(items []string) string { return "[" + strings.Join(items, "; ") + "]" }

func coqOpt(s string, some bool) string {
	if !some {
		return "None"
	}

	return "(Some " + s + ")"
}

// coqBytes renders a byte string as list N.
func coqBytes(b []byte) string {
	items := make([]string, len(b))
	for i, c := range b {
		items[i] = strconv.Itoa(int(c))
	}

	return "[" + strings.Join(items, "; ") + "]%N"
}

// coqFile writes a cases file: header imports, one definition `cases` (a list), and the
// evaluation of `checker cases`, printed as `mism = ...`.
type coqFile struct {
	sb       strings.Builder
	nCases   int
	name     string
	checker  string
	imports  []string
	caseType string
	cases    []string
}

func newCoqFile(name string, imports []string, caseType, checker string) *coqFile {
	f := &coqFile{name: name, checker: checker, imports: imports, caseType: caseType}
	f.sb.WriteString("(* generated by the verif harness from observations of the real code; do not edit *)\n")
	f.sb.WriteString("From Coq Require Import List ZArith NArith String.\nImport ListNotations.\n")

	for _, i := range imports {
		f.sb.WriteString("From Verif Require Import " + i + ".\n")
	}

	f.sb.WriteString("Definition cases : list (" + caseType + ") := [\n")

	return f
}

func (f *coqFile) add(c string) {
	if f.nCases > 0 {
		f.sb.WriteString(";\n")
	}

	f.sb.WriteString("  " + c)
	f.nCases++
	f.cases = append(f.cases, c)
}

func (f *coqFile) finish(t *testing.T, dir string) string {
	f.sb.WriteString("\n].\n")
	f.sb.WriteString("Definition mism := Eval vm_compute in (" + f.checker + " cases).\n")
	f.sb.WriteString("Print mism.\n")

	p := filepath.Join(dir, f.name+".v")
	if err := os.WriteFile(p, []byte(f.sb.String()), 0o644); err != nil {
		t.Fatal(err)
	}

	return f.name + ".v"
}

// finishSharded writes the collected cases as one or more files of at most `per` cases (a list literal of many
// thousands of cases overflows coqc's stack) together with the matching replay files, and registers them in the report.
func (f *coqFile) finishSharded(t *testing.T, dir string, rep *Report, replays []any, per int) {
	if len(f.cases) != len(replays) {
		t.Fatalf("%s: %d cases but %d replays", f.name, len(f.cases), len(replays))
	}

	if len(f.cases) == 0 {
		rep.CoqFiles = append(rep.CoqFiles, f.finish(t, dir))
		rep.CaseFiles = append(rep.CaseFiles, writeJSONL(t, dir, f.name+".jsonl", replays))

		return
	}

	for i, n := 0, 0; i < len(f.cases); i, n = i+per, n+1 {
		j := min(i+per, len(f.cases))

		name := f.name
		if len(f.cases) > per {
			name = fmt.Sprintf("%s_%d", f.name, n)
		}

		g := newCoqFile(name, f.imports, f.caseType, f.checker)
		for _, c := range f.cases[i:j] {
			g.add(c)
		}

		rep.CoqFiles = append(rep.CoqFiles, g.finish(t, dir))
		rep.CaseFiles = append(rep.CaseFiles, writeJSONL(t, dir, name+".jsonl", replays[i:j]))
	}
}

// writeJSONL writes replayable cases, one per line (index = line number).
func writeJSONL(t *testing.T, dir, name string, cases []any) string {
	var sb strings.Builder

	for _, c := range cases {
		b, err := json.Marshal(c)
		if err != nil {
			t.Fatal(err)
		}

		sb.Write(b)
		sb.WriteByte('\n')
	}

	if err := os.WriteFile(filepath.Join(dir, name), []byte(sb.String()), 0o644); err != nil {
		t.Fatal(err)
	}

	return name
}

func sortedKeys[V any](m map[string]V) []string {
	ks := make([]string, 0, len(m))
	for k := range m {
		ks = append(ks, k)
	}

	sort.Strings(ks)

	return ks
}

func optionalUint(n uint) optional.Optional[uint] { return optional.Some(n) }
