package harness

import (
	"context"
	"errors"
	"fmt"
	"io"
	"sync"
	"sync/atomic"
	"time"

	"google.golang.org/grpc"
	"google.golang.org/grpc/codes"
	"google.golang.org/grpc/metadata"
	"google.golang.org/grpc/status"

	"github.com/cosi-project/runtime/api/v1alpha1"
)

// memClient implements v1alpha1.StateClient in memory on top of a v1alpha1.StateServer
// (the real server.State): no sockets, so everything runs inside a synctest bubble.
// Every request/response crosses the "wire" through the vtproto marshal/unmarshal pair.
type memClient struct {
	srv v1alpha1.StateServer

	mu sync.Mutex
	// fault plan for Watch streams (C13): see fault_test.go
	watchFaults *watchFaultPlan
	// strip native Teardown / TeardownAndDestroy RPCs (old server)
	noTeardown bool
	// transport-level recorder for Watch streams (C13): dial outcome, every message handed to the client, stream end
	watchRec func(call int, what string, msg *v1alpha1.WatchResponse, err error)
	// wire-level recorder for Create / Update / Destroy (C11): the options in the request, the status code of the answer
	unaryRec func(rpc string, owner string, expectedPhase *string, code codes.Code)
}

func (c *memClient) recUnary(rpc, owner string, exp *string, err error) {
	if c.unaryRec != nil {
		c.unaryRec(rpc, owner, exp, status.Code(err))
	}
}

type vtMsg interface {
	MarshalVT() ([]byte, error)
}

type vtUnmsg interface {
	UnmarshalVT([]byte) error
}

func wire[T any, PT interface {
	*T
	vtMsg
	vtUnmsg
}](in PT) (PT, error) {
	b, err := in.MarshalVT()
	if err != nil {
		return nil, err
	}

	out := PT(new(T))
	if err := out.UnmarshalVT(b); err != nil {
		return nil, status.Error(codes.Internal, "grpc: error unmarshalling request: "+err.Error())
	}

	return out, nil
}

// toStatus mimics what the gRPC transport does to handler errors.
func toStatus(err error) error {
	if err == nil {
		return nil
	}

	if _, ok := status.FromError(err); ok {
		return err
	}

	switch {
	case errors.Is(err, context.Canceled):
		return status.Error(codes.Canceled, err.Error())
	case errors.Is(err, context.DeadlineExceeded):
		return status.Error(codes.DeadlineExceeded, err.Error())
	}

	return status.Error(codes.Unknown, err.Error())
}

func (c *memClient) Get(ctx context.Context, in *v1alpha1.GetRequest, _ ...grpc.CallOption) (*v1alpha1.GetResponse, error) {
	req, err := wire(in)
	if err != nil {
		return nil, err
	}

	resp, err := guardUnary("Get", func() (*v1alpha1.GetResponse, error) { return c.srv.Get(ctx, req) })
	if err != nil {
		return nil, toStatus(err)
	}

	return wire(resp)
}

func (c *memClient) Create(ctx context.Context, in *v1alpha1.CreateRequest, _ ...grpc.CallOption) (*v1alpha1.CreateResponse, error) {
	req, err := wire(in)
	if err != nil {
		return nil, err
	}

	resp, err := guardUnary("Create", func() (*v1alpha1.CreateResponse, error) { return c.srv.Create(ctx, req) })
	c.recUnary("RCreate", req.GetOptions().GetOwner(), nil, toStatus(err))

	if err != nil {
		return nil, toStatus(err)
	}

	return wire(resp)
}

func (c *memClient) Update(ctx context.Context, in *v1alpha1.UpdateRequest, _ ...grpc.CallOption) (*v1alpha1.UpdateResponse, error) {
	req, err := wire(in)
	if err != nil {
		return nil, err
	}

	resp, err := guardUnary("Update", func() (*v1alpha1.UpdateResponse, error) { return c.srv.Update(ctx, req) })

	var exp *string
	if req.GetOptions() != nil {
		exp = req.GetOptions().ExpectedPhase
	}

	c.recUnary("RUpdate", req.GetOptions().GetOwner(), exp, toStatus(err))

	if err != nil {
		return nil, toStatus(err)
	}

	return wire(resp)
}

func (c *memClient) Destroy(ctx context.Context, in *v1alpha1.DestroyRequest, _ ...grpc.CallOption) (*v1alpha1.DestroyResponse, error) {
	req, err := wire(in)
	if err != nil {
		return nil, err
	}

	resp, err := guardUnary("Destroy", func() (*v1alpha1.DestroyResponse, error) { return c.srv.Destroy(ctx, req) })
	c.recUnary("RDestroy", req.GetOptions().GetOwner(), nil, toStatus(err))

	if err != nil {
		return nil, toStatus(err)
	}

	return wire(resp)
}

func (c *memClient) Teardown(ctx context.Context, in *v1alpha1.TeardownRequest, _ ...grpc.CallOption) (*v1alpha1.TeardownResponse, error) {
	if c.noTeardown {
		return nil, status.Error(codes.Unimplemented, "method Teardown not implemented")
	}

	req, err := wire(in)
	if err != nil {
		return nil, err
	}

	resp, err := guardUnary("Teardown", func() (*v1alpha1.TeardownResponse, error) { return c.srv.Teardown(ctx, req) })
	if err != nil {
		return nil, toStatus(err)
	}

	return wire(resp)
}

func (c *memClient) TeardownAndDestroy(ctx context.Context, in *v1alpha1.TeardownAndDestroyRequest, _ ...grpc.CallOption) (*v1alpha1.TeardownAndDestroyResponse, error) {
	if c.noTeardown {
		return nil, status.Error(codes.Unimplemented, "method TeardownAndDestroy not implemented")
	}

	req, err := wire(in)
	if err != nil {
		return nil, err
	}

	resp, err := guardUnary("TeardownAndDestroy", func() (*v1alpha1.TeardownAndDestroyResponse, error) { return c.srv.TeardownAndDestroy(ctx, req) })
	if err != nil {
		return nil, toStatus(err)
	}

	return wire(resp)
}

var (
	serverPanicMu sync.Mutex
	serverPanics  []string
)

// recordServerPanic notes that a request made the server handler panic (a real gRPC server process would die).
func recordServerPanic(method string, p any) {
	serverPanicMu.Lock()
	defer serverPanicMu.Unlock()

	serverPanics = append(serverPanics, fmt.Sprintf("%s: %v", method, p))
}

func takeServerPanics() []string {
	serverPanicMu.Lock()
	defer serverPanicMu.Unlock()

	out := serverPanics
	serverPanics = nil

	return out
}

// memStream is both ends of a server-streaming RPC.
type memStream[T any, PT interface {
	*T
	vtMsg
	vtUnmsg
}] struct {
	ctx    context.Context //nolint:containedctx
	cancel context.CancelFunc
	ch     chan PT
	done   chan struct{}
	err    error

	// fault injection: break the stream (client side sees Unavailable) after this many messages; <0 = never
	breakAfter int
	sent       int
	onSend     func(m PT)
	// fault injection: the transport was cut by a timer while the stream was idle
	timedOut atomic.Bool
	// the status code the client sees for an injected failure (0 = Unavailable); a peer reset shows up as Canceled,
	// a proxy as Internal / Unknown / DeadlineExceeded ... - the adapter must treat them alike
	failCode codes.Code
}

func (s *memStream[T, PT]) injected() error {
	code := s.failCode
	if code == codes.OK {
		code = codes.Unavailable
	}

	return status.Error(code, "injected transport failure")
}

func newMemStream[T any, PT interface {
	*T
	vtMsg
	vtUnmsg
}](ctx context.Context, breakAfter int) *memStream[T, PT] {
	ctx, cancel := context.WithCancel(ctx)

	return &memStream[T, PT]{ctx: ctx, cancel: cancel, ch: make(chan PT), done: make(chan struct{}), breakAfter: breakAfter}
}

// server side
func (s *memStream[T, PT]) Send(m *T) error {
	if s.breakAfter >= 0 && s.sent >= s.breakAfter {
		s.cancel()

		return status.Error(codes.Unavailable, "injected transport failure")
	}

	out, err := wire[T, PT](PT(m))
	if err != nil {
		return err
	}

	select {
	case s.ch <- out:
		s.sent++

		if s.onSend != nil {
			s.onSend(out)
		}

		return nil
	case <-s.ctx.Done():
		return status.Error(codes.Canceled, "stream closed")
	}
}

func (s *memStream[T, PT]) Context() context.Context     { return s.ctx }
func (s *memStream[T, PT]) SetHeader(metadata.MD) error  { return nil }
func (s *memStream[T, PT]) SendHeader(metadata.MD) error { return nil }
func (s *memStream[T, PT]) SetTrailer(metadata.MD)       {}
func (s *memStream[T, PT]) SendMsg(any) error            { return errors.New("not used") }
func (s *memStream[T, PT]) RecvMsg(any) error            { return errors.New("not used") }

// client side
func (s *memStream[T, PT]) Recv() (*T, error) {
	select {
	case m := <-s.ch:
		return (*T)(m), nil
	case <-s.done:
		// drain anything already handed over
		select {
		case m := <-s.ch:
			return (*T)(m), nil
		default:
		}

		if s.err == nil {
			return nil, io.EOF
		}

		return nil, s.err
	}
}

func (s *memStream[T, PT]) Header() (metadata.MD, error) { return nil, nil }
func (s *memStream[T, PT]) Trailer() metadata.MD         { return nil }
func (s *memStream[T, PT]) CloseSend() error             { return nil }

func (s *memStream[T, PT]) finish(err error) {
	if s.breakAfter >= 0 && s.sent >= s.breakAfter || s.timedOut.Load() {
		err = s.injected()
	}

	s.err = toStatus(err)
	close(s.done)
}

func (c *memClient) List(ctx context.Context, in *v1alpha1.ListRequest, _ ...grpc.CallOption) (grpc.ServerStreamingClient[v1alpha1.ListResponse], error) {
	req, err := wire(in)
	if err != nil {
		return nil, err
	}

	s := newMemStream[v1alpha1.ListResponse](ctx, -1)

	go func() {
		var err error

		defer func() {
			if p := recover(); p != nil {
				recordServerPanic("List", p)

				err = status.Error(codes.Internal, "server panic")
			}

			s.finish(err)
		}()

		err = c.srv.List(req, s)
	}()

	return s, nil
}

func (c *memClient) Watch(ctx context.Context, in *v1alpha1.WatchRequest, _ ...grpc.CallOption) (grpc.ServerStreamingClient[v1alpha1.WatchResponse], error) {
	req, err := wire(in)
	if err != nil {
		return nil, err
	}

	breakAfter := -1

	var dialErr error

	call := -1

	if c.watchFaults != nil {
		c.watchFaults.mu.Lock()
		call = c.watchFaults.calls
		c.watchFaults.mu.Unlock()

		breakAfter, dialErr = c.watchFaults.next()
	}

	if dialErr != nil {
		if c.watchRec != nil {
			c.watchRec(call, "dial-fail", nil, dialErr)
		}

		return nil, dialErr
	}

	if c.watchFaults != nil && call >= 0 && call < len(c.watchFaults.plan) && c.watchFaults.plan[call].Foreign {
		// the bookmark was minted by another incarnation of the server: its cookie differs (the cookie is per process)
		if bm := req.GetOptions().GetStartFromBookmark(); len(bm) > 0 {
			bm[0] ^= 0xff
		}
	}

	srv := c.srv
	if c.watchFaults != nil && c.watchFaults.server != nil {
		if alt := c.watchFaults.server(call); alt != nil {
			srv = alt
		}
	}

	s := newMemStream[v1alpha1.WatchResponse](ctx, breakAfter)

	if c.watchFaults != nil && call >= 0 && call < len(c.watchFaults.plan) {
		s.failCode = codes.Code(c.watchFaults.plan[call].Code)
	}

	if c.watchRec != nil {
		s.onSend = func(m *v1alpha1.WatchResponse) { c.watchRec(call, "msg", m, nil) }
	}

	if c.watchFaults != nil && call >= 0 && call < len(c.watchFaults.plan) && c.watchFaults.plan[call].CutAfter > 0 {
		// the transport dies after this long, whether or not anything is being sent
		go func(d time.Duration) {
			select {
			case <-time.After(d):
				s.timedOut.Store(true)
				s.cancel()
			case <-s.ctx.Done():
			}
		}(time.Duration(c.watchFaults.plan[call].CutAfter))
	}

	go func() {
		var err error

		defer func() {
			if p := recover(); p != nil {
				recordServerPanic("Watch", p)

				err = status.Error(codes.Internal, "server panic")
			}

			s.finish(err)

			if c.watchRec != nil && s.ctx.Err() == nil || c.watchRec != nil && s.breakAfter >= 0 && s.sent >= s.breakAfter || c.watchRec != nil && s.timedOut.Load() {
				c.watchRec(call, "end", nil, s.err)
			}
		}()

		err = srv.Watch(req, s)
	}()

	return s, nil
}

// watchFaultPlan scripts failures of successive Watch calls (C13).
type watchFaultPlan struct {
	mu sync.Mutex
	// per Watch call (in order): break the stream after N messages (-1 never), or fail the dial
	plan   []watchFault
	calls  int
	server func(call int) v1alpha1.StateServer
}

type watchFault struct {
	BreakAfter int   `json:"break_after"`
	FailDial   bool  `json:"fail_dial,omitempty"`
	CutAfter   int64 `json:"cut_after,omitempty"` // the stream fails this long (ns) after it was opened, even when idle
	Foreign    bool  `json:"foreign,omitempty"`   // this call reaches a different server incarnation (fresh state, other cookie)
	Code       int   `json:"code,omitempty"`      // gRPC status code the client sees for this failure (0 = Unavailable)
}

func (p *watchFaultPlan) next() (int, error) {
	p.mu.Lock()
	defer p.mu.Unlock()

	i := p.calls
	p.calls++

	if i >= len(p.plan) {
		return -1, nil
	}

	if p.plan[i].FailDial {
		code := codes.Code(p.plan[i].Code)
		if code == codes.OK {
			code = codes.Unavailable
		}

		return -1, status.Error(code, "injected dial failure")
	}

	return p.plan[i].BreakAfter, nil
}

// guardUnary turns a handler panic into what a client of a real server would see (and records that the server died).
func guardUnary[T any](method string, f func() (*T, error)) (resp *T, err error) {
	defer func() {
		if p := recover(); p != nil {
			recordServerPanic(method, p)

			resp, err = nil, status.Error(codes.Internal, "server panic")
		}
	}()

	return f()
}
