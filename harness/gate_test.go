package harness

import (
	"context"
	"sync"

	"github.com/cosi-project/runtime/pkg/resource"
	"github.com/cosi-project/runtime/pkg/state"
)

// gateState wraps a CoreState so that every call made by a registered thread (identified through the
// context) announces itself and blocks until the driver releases it. Watch deliveries are gated too:
// events from the inner watch are queued by a relay and handed to the caller one at a time on demand.
// Calls made with a context that carries no thread id pass straight through (environment operations).
type gateState struct {
	inner state.CoreState

	mu      sync.Mutex
	pending map[int]*gateReq
	watches map[int]*gateWatch
	log     []gateLogEntry
}

type gateReq struct {
	kind    string
	release chan struct{}
}

type gateWatch struct {
	queue []state.Event
	out   chan<- state.Event
	ctx   context.Context //nolint:containedctx
}

type gateLogEntry struct {
	Tid  int
	Kind string
	// successful writes only: the committed object / destroyed pointer
	Res resource.Resource
	Ptr resource.Pointer
	Err error
}

type tidKey struct{}

func withTid(ctx context.Context, tid int) context.Context {
	return context.WithValue(ctx, tidKey{}, tid)
}

func tidOf(ctx context.Context) (int, bool) {
	v, ok := ctx.Value(tidKey{}).(int)

	return v, ok
}

func newGate(inner state.CoreState) *gateState {
	return &gateState{inner: inner, pending: map[int]*gateReq{}, watches: map[int]*gateWatch{}}
}

func (g *gateState) enter(ctx context.Context, kind string) int {
	tid, ok := tidOf(ctx)
	if !ok {
		return -1
	}

	req := &gateReq{kind: kind, release: make(chan struct{})}

	g.mu.Lock()
	g.pending[tid] = req
	g.mu.Unlock()

	select {
	case <-req.release:
	case <-ctx.Done():
	}

	return tid
}

// pendingKind returns the announced call of a thread ("" if none).
func (g *gateState) pendingKind(tid int) string {
	g.mu.Lock()
	defer g.mu.Unlock()

	if r, ok := g.pending[tid]; ok {
		return r.kind
	}

	return ""
}

// release lets the pending call of tid proceed.
func (g *gateState) release(tid int) bool {
	g.mu.Lock()
	r, ok := g.pending[tid]
	delete(g.pending, tid)
	g.mu.Unlock()

	if ok {
		close(r.release)
	}

	return ok
}

// canDeliver reports whether the thread's watch has a queued event.
func (g *gateState) canDeliver(tid int) bool {
	g.mu.Lock()
	defer g.mu.Unlock()

	w, ok := g.watches[tid]

	return ok && len(w.queue) > 0
}

// deliver hands the next queued watch event to the thread (which must be blocked receiving).
func (g *gateState) deliver(tid int) bool {
	g.mu.Lock()
	w, ok := g.watches[tid]

	if !ok || len(w.queue) == 0 {
		g.mu.Unlock()

		return false
	}

	ev := w.queue[0]
	w.queue = w.queue[1:]
	g.mu.Unlock()

	// after synctest.Wait() a caller that still listens is blocked in its select: the send succeeds at once
	select {
	case w.out <- ev:
		return true
	default:
		g.mu.Lock()
		w.queue = append([]state.Event{ev}, w.queue...)
		g.mu.Unlock()

		return false
	}
}

func (g *gateState) record(e gateLogEntry) {
	g.mu.Lock()
	g.log = append(g.log, e)
	g.mu.Unlock()
}

func (g *gateState) Get(ctx context.Context, ptr resource.Pointer, opts ...state.GetOption) (resource.Resource, error) { //nolint:ireturn
	tid := g.enter(ctx, "get")
	r, err := g.inner.Get(ctx, ptr, opts...)
	g.record(gateLogEntry{Tid: tid, Kind: "get", Err: err})

	return r, err
}

func (g *gateState) List(ctx context.Context, kind resource.Kind, opts ...state.ListOption) (resource.List, error) {
	tid := g.enter(ctx, "list")
	l, err := g.inner.List(ctx, kind, opts...)
	g.record(gateLogEntry{Tid: tid, Kind: "list", Err: err})

	return l, err
}

func (g *gateState) Create(ctx context.Context, r resource.Resource, opts ...state.CreateOption) error {
	tid := g.enter(ctx, "create")
	err := g.inner.Create(ctx, r, opts...)

	e := gateLogEntry{Tid: tid, Kind: "create", Err: err}
	if err == nil {
		e.Res = r.DeepCopy()
	}

	g.record(e)

	return err
}

func (g *gateState) Update(ctx context.Context, r resource.Resource, opts ...state.UpdateOption) error {
	tid := g.enter(ctx, "update")
	err := g.inner.Update(ctx, r, opts...)

	e := gateLogEntry{Tid: tid, Kind: "update", Err: err}
	if err == nil {
		e.Res = r.DeepCopy()
	}

	g.record(e)

	return err
}

func (g *gateState) Destroy(ctx context.Context, ptr resource.Pointer, opts ...state.DestroyOption) error {
	tid := g.enter(ctx, "destroy")
	err := g.inner.Destroy(ctx, ptr, opts...)

	e := gateLogEntry{Tid: tid, Kind: "destroy", Err: err}
	if err == nil {
		e.Ptr = resource.NewMetadata(ptr.Namespace(), ptr.Type(), ptr.ID(), resource.VersionUndefined)
	}

	g.record(e)

	return err
}

func (g *gateState) Watch(ctx context.Context, ptr resource.Pointer, ch chan<- state.Event, opts ...state.WatchOption) error {
	tid := g.enter(ctx, "watch")
	if tid < 0 {
		return g.inner.Watch(ctx, ptr, ch, opts...)
	}

	relay := make(chan state.Event)

	if err := g.inner.Watch(ctx, ptr, relay, opts...); err != nil {
		return err
	}

	w := &gateWatch{out: ch, ctx: ctx}

	g.mu.Lock()
	g.watches[tid] = w
	g.mu.Unlock()

	go func() {
		for {
			select {
			case ev := <-relay:
				g.mu.Lock()
				w.queue = append(w.queue, ev)
				g.mu.Unlock()
			case <-ctx.Done():
				return
			}
		}
	}()

	return nil
}

func (g *gateState) WatchKind(ctx context.Context, kind resource.Kind, ch chan<- state.Event, opts ...state.WatchKindOption) error {
	return g.inner.WatchKind(ctx, kind, ch, opts...)
}

func (g *gateState) WatchKindAggregated(ctx context.Context, kind resource.Kind, ch chan<- []state.Event, opts ...state.WatchKindOption) error {
	return g.inner.WatchKindAggregated(ctx, kind, ch, opts...)
}
