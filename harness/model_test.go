package harness

import (
	"context"
	"errors"
	"fmt"
	"path/filepath"
	"sort"
	"strings"
	"sync"
	"sync/atomic"
	"testing"
	"time"

	"go.etcd.io/bbolt"

	"github.com/cosi-project/runtime/pkg/resource"
	"github.com/cosi-project/runtime/pkg/state"
	"github.com/cosi-project/runtime/pkg/state/impl/inmem"
	"github.com/cosi-project/runtime/pkg/state/impl/namespaced"
	"github.com/cosi-project/runtime/pkg/state/impl/store"
	"github.com/cosi-project/runtime/pkg/state/impl/store/bolt"
	"github.com/cosi-project/runtime/pkg/state/protobuf/client"
	"github.com/cosi-project/runtime/pkg/state/protobuf/server"
)

// atom maps a short string (<= 6 bytes, no NUL) to a number, preserving string order; "" -> 0.
func atom(s string) uint64 {
	if len(s) > 6 {
		panic("atom too long: " + s)
	}

	var n uint64

	for i := range 6 {
		n <<= 8

		if i < len(s) {
			n |= uint64(s[i])
		}
	}

	return n
}

func coqAtom(s string) string { return coqN(atom(s)) }

func coqVer(v resource.Version) string {
	if v.String() == "undefined" {
		return "None"
	}

	return fmt.Sprintf("(Some %d%%N)", v.Value())
}

// coqRes renders a resource as a Store.res literal; times are ns relative to t0.
func coqRes(r resource.Resource, t0 time.Time) string {
	md := r.Metadata()

	fins := make([]string, 0)
	for _, f := range *md.Finalizers() {
		fins = append(fins, coqAtom(f))
	}

	labels := make([]string, 0)

	lk := md.Labels().Keys()
	sort.Strings(lk)

	for _, k := range lk {
		v, _ := md.Labels().Get(k)
		labels = append(labels, fmt.Sprintf("(%s, %s)", coqAtom(k), coqAtom(v)))
	}

	return fmt.Sprintf("(mkRes %s %s %s %s %s %s %s %s %s %s %s)",
		coqAtom(md.Namespace()), coqAtom(md.Type()), coqAtom(md.ID()), coqVer(md.Version()), coqAtom(md.Owner()),
		coqBool(md.Phase() == resource.PhaseTearingDown), coqList(fins), coqList(labels),
		coqZ(int64(md.Created().Sub(t0))), coqZ(int64(md.Updated().Sub(t0))), coqAtom(payloadOf(r)))
}

func coqKey(ns, typ, id string) string {
	return fmt.Sprintf("(%s, %s, %s)", coqAtom(ns), coqAtom(typ), coqAtom(id))
}

// errClass renders an error as the observation tuple the model predicts:
// (not_found, conflict with each qualifier combination, owner, phase); a panic in a predicate is reported separately.
type errObs struct {
	NotFound, Owner, Phase bool
	Conflict               [6]bool // no qualifier, right ns, wrong ns, right type, wrong type, right ns+type
	Panicked               string
}

func classify(err error, ns, typ string) (o errObs) {
	safe := func(name string, f func() bool) bool {
		defer func() {
			if p := recover(); p != nil {
				o.Panicked = fmt.Sprintf("%s panicked: %v", name, p)
			}
		}()

		return f()
	}

	o.NotFound = safe("IsNotFoundError", func() bool { return state.IsNotFoundError(err) })
	o.Owner = safe("IsOwnerConflictError", func() bool { return state.IsOwnerConflictError(err) })
	o.Phase = safe("IsPhaseConflictError", func() bool { return state.IsPhaseConflictError(err) })
	o.Conflict[0] = safe("IsConflictError()", func() bool { return state.IsConflictError(err) })
	o.Conflict[1] = safe("IsConflictError(WithResourceNamespace)", func() bool { return state.IsConflictError(err, state.WithResourceNamespace(ns)) })
	o.Conflict[2] = safe("IsConflictError(WithResourceNamespace)", func() bool { return state.IsConflictError(err, state.WithResourceNamespace("zz")) })
	o.Conflict[3] = safe("IsConflictError(WithResourceType)", func() bool { return state.IsConflictError(err, state.WithResourceType(typ)) })
	o.Conflict[4] = safe("IsConflictError(WithResourceType)", func() bool { return state.IsConflictError(err, state.WithResourceType("zz")) })
	o.Conflict[5] = safe("IsConflictError(WithResourceNamespace,WithResourceType)", func() bool {
		return state.IsConflictError(err, state.WithResourceNamespace(ns), state.WithResourceType(typ))
	})

	return o
}

func (o errObs) coq() string {
	c := make([]string, len(o.Conflict))
	for i, b := range o.Conflict {
		c[i] = coqBool(b)
	}

	return fmt.Sprintf("(%s, %s, %s, %s)", coqBool(o.NotFound), coqBool(o.Owner), coqBool(o.Phase), coqList(c))
}

var dbCounter atomic.Int64

// ---- state handles ----------------------------------------------------------------

type handle struct {
	name  string
	st    state.CoreState
	close func()
	// remote handles write back only version/owner/updated
	remote bool
	faults *faultStore
}

// faultStore is a BackingStore that persists nothing and fails the next write when armed.
type faultStore struct {
	mu    sync.Mutex
	armed bool
	fired bool
}

func (f *faultStore) arm() {
	f.mu.Lock()
	f.armed, f.fired = true, false
	f.mu.Unlock()
}

// disarm reports whether the armed fault was hit.
func (f *faultStore) disarm() bool {
	f.mu.Lock()
	defer f.mu.Unlock()

	f.armed = false

	return f.fired
}

func (f *faultStore) hit() error {
	f.mu.Lock()
	defer f.mu.Unlock()

	if f.armed {
		f.armed, f.fired = false, true

		return errors.New("injected backing store failure")
	}

	return nil
}

func (f *faultStore) Put(context.Context, resource.Type, resource.Resource) error    { return f.hit() }
func (f *faultStore) Destroy(context.Context, resource.Type, resource.Pointer) error { return f.hit() }
func (f *faultStore) Load(context.Context, inmem.LoadHandler) error                  { return nil }

// slowStore is a BackingStore that persists nothing and takes a while for every write.
type slowStore struct{ d time.Duration }

func (s slowStore) Put(context.Context, resource.Type, resource.Resource) error {
	time.Sleep(s.d)

	return nil
}

func (s slowStore) Destroy(context.Context, resource.Type, resource.Pointer) error {
	time.Sleep(s.d)

	return nil
}

func (s slowStore) Load(context.Context, inmem.LoadHandler) error { return nil }

func raceBuilder() namespaced.StateBuilder {
	var (
		mu      sync.Mutex
		waiting = map[string]chan struct{}{}
	)

	return func(ns resource.Namespace) state.CoreState {
		mu.Lock()

		if ch, ok := waiting[ns]; ok {
			delete(waiting, ns)
			close(ch)
			mu.Unlock()
		} else {
			ch := make(chan struct{})
			waiting[ns] = ch
			mu.Unlock()

			select {
			case <-ch:
			case <-time.After(time.Millisecond):
				mu.Lock()
				delete(waiting, ns)
				mu.Unlock()
			}
		}

		return inmem.Build(ns)
	}
}

func boltMarshaler() store.Marshaler { return store.ProtobufMarshaler{} }

func newBoltState(t *testing.T, path string, m store.Marshaler) (state.CoreState, *bolt.BackingStore) {
	bs, err := bolt.NewBackingStore(func() (*bbolt.DB, error) { return bbolt.Open(path, 0o600, &bbolt.Options{NoSync: true}) }, m)
	if err != nil {
		t.Fatal(err)
	}

	st := namespaced.NewState(func(ns resource.Namespace) state.CoreState {
		return inmem.NewStateWithOptions(inmem.WithBackingStore(bs.WithNamespace(ns)))(ns)
	})

	return st, bs
}

func newRemote(backing state.CoreState) (*client.Adapter, *memClient) {
	mc := &memClient{srv: server.NewState(backing)}

	return client.NewAdapter(mc, client.WithDisableWatchRetry()), mc
}

// makeHandles builds the four CoreState flavours of C01.
func makeHandles(t *testing.T, dir string, which []string) []handle {
	var hs []handle

	for _, w := range which {
		switch w {
		case "inmem":
			hs = append(hs, handle{name: w, st: inmem.NewState("n1"), close: func() {}})
		case "namespaced":
			hs = append(hs, handle{name: w, st: namespaced.NewState(inmem.Build), close: func() {}})
		case "bbolt":
			st, bs := newBoltState(t, filepath.Join(dir, fmt.Sprintf("db-%d.bolt", dbCounter.Add(1))), boltMarshaler())
			hs = append(hs, handle{name: w, st: st, close: func() { bs.Close() }}) //nolint:errcheck
		case "nsrace":
			// first accesses to a namespace rendezvous inside the builder, so that concurrent first users of a
			// namespace really overlap in namespaced.getNamespace
			hs = append(hs, handle{name: w, st: namespaced.NewState(raceBuilder()), close: func() {}})
		case "faulty":
			fs := &faultStore{}
			st := namespaced.NewState(func(ns resource.Namespace) state.CoreState {
				return inmem.NewStateWithOptions(inmem.WithBackingStore(fs))(ns)
			})
			hs = append(hs, handle{name: w, st: st, close: func() {}, faults: fs})
		case "slowstore":
			// a backing store whose writes take real time: concurrent callers overlap with a store call in progress
			ss := slowStore{d: 3 * time.Millisecond}
			st := namespaced.NewState(func(ns resource.Namespace) state.CoreState {
				return inmem.NewStateWithOptions(inmem.WithBackingStore(ss))(ns)
			})
			hs = append(hs, handle{name: w, st: st, close: func() {}})
		case "grpc":
			ad, _ := newRemote(namespaced.NewState(inmem.Build))
			hs = append(hs, handle{name: w, st: ad, close: func() {}, remote: true})
		}
	}

	return hs
}

// listAll lists a kind and renders it.
func coqListOf(ctx context.Context, st state.CoreState, ns, typ string, t0 time.Time) (string, error) {
	l, err := st.List(ctx, resource.NewMetadata(ns, typ, "", resource.VersionUndefined))
	if err != nil {
		return "", err
	}

	items := make([]string, len(l.Items))
	for i, r := range l.Items {
		items[i] = coqRes(r, t0)
	}

	return coqList(items), nil
}

func joinNonEmpty(xs ...string) string {
	var out []string

	for _, x := range xs {
		if x != "" {
			out = append(out, x)
		}
	}

	return strings.Join(out, "; ")
}
