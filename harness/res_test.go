package harness

import (
	"github.com/cosi-project/runtime/pkg/resource"
	"github.com/cosi-project/runtime/pkg/resource/protobuf"
)

// Res is the harness' resource: a string payload, protobuf-marshalable, usable for any type name.
type Res struct {
	md   resource.Metadata
	spec resSpec
}

type resSpec struct{ S string }

func (s resSpec) MarshalProto() ([]byte, error) { return []byte(s.S), nil }

func newRes(ns, typ, id, payload string) *Res {
	return &Res{md: resource.NewMetadata(ns, typ, id, resource.VersionUndefined), spec: resSpec{payload}}
}

func (r *Res) Metadata() *resource.Metadata { return &r.md }
func (r *Res) Spec() any                    { return r.spec }
func (r *Res) Payload() string              { return r.spec.S }
func (r *Res) SetPayload(s string)          { r.spec.S = s }
func (r *Res) DeepCopy() resource.Resource  { return &Res{md: r.md, spec: r.spec} } //nolint:ireturn

func (r *Res) UnmarshalProto(md *resource.Metadata, b []byte) error {
	r.md = *md
	r.spec.S = string(b)

	return nil
}

var harnessTypes = []string{"T", "U", "O", "P"}

func init() {
	for _, typ := range harnessTypes {
		if err := protobuf.RegisterResource(typ, &Res{}); err != nil {
			panic(err)
		}
	}
}

func payloadOf(r resource.Resource) string {
	switch x := r.(type) {
	case *Res:
		return x.spec.S
	case interface{ Payload() string }:
		return x.Payload()
	default:
		return "?"
	}
}
